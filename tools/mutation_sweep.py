#!/usr/bin/env python3
"""tools/mutation_sweep.py -- systematic MUTATION SWEEP (development audit, NOT a registered check).

Measures how sensitive the registered checks (./check Cxx --tier quick) are to small realistic single-site edits of the
environment code rl4co/envs/**/env.py.  Nothing here is imported by the checks; nothing under /repo is ever written:
every mutant is applied to a throw-away `git worktree` of /repo under /tmp (one per worker, removed at the end) and the
checks are pointed at it with RL4CO_REPO.  Evidence files go to a scratch directory (VERIF_EVIDENCE_DIR), replay files
written by the killed mutants are removed again.

usage (cwd anywhere; run with any python >= 3.8, the checks themselves use /venv/bin/python):
  tools/mutation_sweep.py list   [--envs tsp,cvrp] [--cap 25] [--all]      enumerate (selected | all) mutants
  tools/mutation_sweep.py run    [--envs ...] [--cap 25] [--workers 4] [--minutes 150] [--fresh]
                                                                             run the sweep (resumes audit/mutation_sweep.json)
  tools/mutation_sweep.py followup [--minutes 20]                           survivors in mask/step/reset code additionally vs C03
  tools/mutation_sweep.py list2 / run2 [--modules decoding,ops] [--cap 20] [--workers 4] [--minutes 150] / report2
                                                                             second sweep: non-env modules (table MODULES) vs C10-C20
  tools/mutation_sweep.py report                                             regenerate audit/MUTATION_SWEEP.md from the json
  tools/mutation_sweep.py show  <mutant-id>                                  print the stored diff
  tools/mutation_sweep.py apply <mutant-id> <tree>                           apply one mutant to a scratch tree (for triage)

mutant id = <env>:<function>:<line>:<operator>[.k]   (k = k-th site of that operator on that line, in column order)

operators
  cmp_boundary   <  <-> <=,  >  <-> >=          (== -> != is too loud: skipped)
  and_or         &  <-> |   (also &= <-> |=)
  drop_not       ~x  ->  x
  plus_minus     +  <-> -   (also += <-> -=)
  drop_conjunct  a & b & c -> a & c   (one term of a maximal &-chain; also one conjunct of an `assert a and b`)
  drop_disjunct  a | b -> a           (one term of a maximal |-chain: "a dropped mask term")
  const+1/const-1  small integer constant +-1 inside a subscript, a range()/arange() or as operand of +/-
  any_all        .any() <-> .all()
  max_min        max <-> min, maximum <-> minimum, amax <-> amin, argmax <-> argmin
  col01          [..., 0] <-> [..., 1]
  drop_clone     x.clone() -> x
  (second sweep only)  drop_detach  x.detach() -> x;  drop_neg  -x -> x;  mean_sum  .mean <-> .sum;  axis  dim=0 <-> dim=1, dim=-1 <-> dim=-2
"""
from __future__ import annotations

import argparse
import ast
import difflib
import json
import os
import queue
import random
import re
import shutil
import subprocess
import sys
import threading
import time
from pathlib import Path

VERIF = Path(__file__).resolve().parent.parent
REPO = Path("/repo")
AUDIT = VERIF / "audit"
JSON_OUT = AUDIT / "mutation_sweep.json"
MD_OUT = AUDIT / "MUTATION_SWEEP.md"
PY = "/venv/bin/python"
CHECK_TIMEOUT = 300     # a quick-tier check restricted to one unit takes 15-70 s (budget 180 s); beyond this the mutant made the harness spin
TEST_TIMEOUT = 150      # the env tests take ~10-30 s; a mutant that makes the random rollout spin forever is "killed by tests (hang)"

# ---------------------------------------------------------------------------------------------- environments
# name, file (under rl4co/envs), primary class, VERIF_ONLY unit for C01..C06, pytest node ids, extras
T = "tests/test_envs.py::"
ENVS = [
    dict(name="tsp", file="routing/tsp/env.py", cls="TSPEnv", unit="tsp", tests=[T + "test_routing[TSPEnv]"]),
    dict(name="atsp", file="routing/atsp/env.py", cls="ATSPEnv", unit="atsp", tests=[T + "test_routing[ATSPEnv]"]),
    dict(name="pdp", file="routing/pdp/env.py", cls="PDPEnv", unit="pdp", tests=[T + "test_routing[PDPEnv]"]),
    dict(name="cvrp", file="routing/cvrp/env.py", cls="CVRPEnv", unit="cvrp", tests=[T + "test_routing[CVRPEnv]"]),
    dict(name="cvrptw", file="routing/cvrptw/env.py", cls="CVRPTWEnv", unit="cvrptw", tests=[T + "test_routing[CVRPTWEnv]"]),
    dict(name="sdvrp", file="routing/sdvrp/env.py", cls="SDVRPEnv", unit="sdvrp", tests=[T + "test_routing[SDVRPEnv]"]),
    dict(name="op", file="routing/op/env.py", cls="OPEnv", unit="op", tests=[T + "test_routing[OPEnv]"]),
    dict(name="pctsp", file="routing/pctsp/env.py", cls="PCTSPEnv", unit="pctsp",
         tests=[T + "test_routing[PCTSPEnv]", T + "test_routing[SPCTSPEnv]"]),
    dict(name="spctsp", file="routing/spctsp/env.py", cls="SPCTSPEnv", unit="spctsp", tests=[T + "test_routing[SPCTSPEnv]"]),
    dict(name="svrp", file="routing/svrp/env.py", cls="SVRPEnv", unit="svrp", tests=[T + "test_routing[SVRPEnv]"]),
    dict(name="mtsp", file="routing/mtsp/env.py", cls="MTSPEnv", unit="mtsp", tests=[T + "test_routing[MTSPEnv]"]),
    dict(name="mdcpdp", file="routing/mdcpdp/env.py", cls="MDCPDPEnv", unit="mdcpdp", tests=[T + "test_routing[MDCPDPEnv]"]),
    dict(name="mtvrp", file="routing/mtvrp/env.py", cls="MTVRPEnv", unit="mtvrp", tests=[T + "test_mtvrp"]),
    dict(name="fjsp", file="scheduling/fjsp/env.py", cls="FJSPEnv", unit="sched", group="sched", c07="fjsp",
         tests=[T + "test_scheduling[True-FJSPEnv]", T + "test_scheduling[False-FJSPEnv]", T + "test_scheduling[True-JSSPEnv]",
                T + "test_scheduling[False-JSSPEnv]", T + "test_jssp_lb", T + "test_scheduling_dataloader"]),
    dict(name="jssp", file="scheduling/jssp/env.py", cls="JSSPEnv", unit="sched", group="sched", c07="fjsp",
         extra_roots=["_translate_action"],
         tests=[T + "test_scheduling[True-JSSPEnv]", T + "test_scheduling[False-JSSPEnv]", T + "test_jssp_lb"]),
    dict(name="ffsp", file="scheduling/ffsp/env.py", cls="FFSPEnv", unit="sched", group="sched", c07="ffsp",
         extra_roots=["pre_step"],
         tests=[T + "test_scheduling[True-FFSPEnv]", T + "test_scheduling[False-FFSPEnv]"]),
    dict(name="smtwtp", file="scheduling/smtwtp/env.py", cls="SMTWTPEnv", unit="sched", group="sched", c07="ffsp",
         tests=[T + "test_smtwtp"]),
    dict(name="flp", file="graph/flp/env.py", cls="FLPEnv", unit="graph", group="graph", c08=True, tests=[T + "test_flp_mcp[FLPEnv]"]),
    dict(name="mcp", file="graph/mcp/env.py", cls="MCPEnv", unit="graph", group="graph", c08=True, tests=[T + "test_flp_mcp[MCPEnv]"]),
]
ENV_BY_NAME = {e["name"]: e for e in ENVS}

ROOTS = {"get_action_mask": "dyn", "_step": "dyn", "_reset": "dyn", "pre_step": "dyn", "_translate_action": "dyn",
         "_get_reward": "reward", "check_solution_validity": "checker"}
# never followed as helpers (not part of the properties' observables, or not reachable from reset/step/mask/reward/checker)
EXCLUDE = {"__init__", "_make_spec", "render", "load_data", "local_search", "select_start_nodes", "get_num_starts", "solve",
           "print_presets", "check_variants", "get_variant_names", "_get_features", "replace_selected_actions"}
CHECKS_BY_CAT = {"dyn": ["C01", "C02", "C04", "C05"], "reward": ["C03", "C04"], "checker": ["C06"]}

OP_PRIORITY = ["cmp_boundary", "drop_conjunct", "and_or", "drop_not", "plus_minus", "drop_disjunct", "const+1", "const-1",
               "any_all", "max_min", "col01", "drop_clone", "drop_detach", "drop_neg", "mean_sum", "axis"]


# ---------------------------------------------------------------------------------------------- enumeration
class Src:
    def __init__(self, text: str):
        self.text = text
        self.b = text.encode("utf-8")
        self.line_off = [0]
        for ln in self.b.split(b"\n"):
            self.line_off.append(self.line_off[-1] + len(ln) + 1)

    def off(self, lineno, col):
        return self.line_off[lineno - 1] + col

    def span(self, node):
        return self.off(node.lineno, node.col_offset), self.off(node.end_lineno, node.end_col_offset)

    def pspan(self, node):
        """span of a node widened over the parentheses that wrap exactly this node"""
        s, e = self.span(node)
        b = self.b
        while True:
            i = s - 1
            while i >= 0 and b[i:i + 1] in (b" ", b"\t", b"\n"):
                i -= 1
            j = e
            while j < len(b) and b[j:j + 1] in (b" ", b"\t", b"\n"):
                j += 1
            if i >= 0 and j < len(b) and b[i:i + 1] == b"(" and b[j:j + 1] == b")":
                # make sure the "(" is a grouping paren, not a call paren: the char before it must not end a name / ] / )
                k = i - 1
                while k >= 0 and b[k:k + 1] in (b" ", b"\t"):
                    k -= 1
                if k >= 0 and (b[k:k + 1].isalnum() or b[k:k + 1] in (b"_", b"]", b")")):
                    # could still be a keyword (`assert (`, `return (`, `and (`, `not (`, `in (`, `if (`)
                    m = re.search(rb"(\w+)$", b[max(0, k - 12):k + 1])
                    if not (m and m.group(1) in (b"assert", b"return", b"and", b"or", b"not", b"in", b"if", b"else", b"elif")):
                        break
                s, e = i, j + 1
            else:
                break
        return s, e

    def between(self, a_end, b_start):
        """source between two offsets with comments blanked"""
        seg = self.b[a_end:b_start]
        return re.sub(rb"#[^\n]*", lambda m: b" " * len(m.group(0)), seg)


def flatten(node, optype):
    if isinstance(node, ast.BinOp) and isinstance(node.op, optype):
        return flatten(node.left, optype) + flatten(node.right, optype)
    return [node]


class Enumerator(ast.NodeVisitor):
    def __init__(self, src: Src, func: str, extra_ops: bool = False):
        self.src, self.func = src, func
        self.extra_ops = extra_ops      # module sweep only: drop_detach, mean_sum, drop_neg, axis
        self.edits = []          # (line, col, operator, start, end, replacement bytes)
        self.parents = []
        self.col01_consts = set()
        self.done_chain = set()

    def add(self, node, op, s, e, rep):
        self.edits.append((node.lineno, node.col_offset, op, s, e, rep))

    def generic_visit(self, node):
        self.parents.append(node)
        super().generic_visit(node)
        self.parents.pop()

    # -- helpers
    def op_token(self, left, right, table):
        s0 = self.src.span(left)[1]
        e0 = self.src.span(right)[0]
        seg = self.src.between(s0, e0)
        pat = b"|".join(re.escape(k) for k in sorted(table, key=len, reverse=True))
        m = re.search(pat, seg)
        if not m:
            return None
        return s0 + m.start(), s0 + m.end(), table[m.group(0)]

    def visit_Compare(self, node):
        operands = [node.left] + node.comparators
        for k, op in enumerate(node.ops):
            if isinstance(op, (ast.Lt, ast.LtE, ast.Gt, ast.GtE)):
                r = self.op_token(operands[k], operands[k + 1], {b"<=": b"<", b">=": b">", b"<": b"<=", b">": b">="})
                if r:
                    self.add(node, "cmp_boundary", *r)
        self.generic_visit(node)

    def visit_BinOp(self, node):
        if isinstance(node.op, (ast.BitAnd, ast.BitOr)):
            r = self.op_token(node.left, node.right, {b"&": b"|", b"|": b"&"})
            if r:
                self.add(node, "and_or", *r)
            if id(node) not in self.done_chain:
                optype = type(node.op)
                terms = flatten(node, optype)
                # mark inner chain nodes so the chain is handled once, from its top
                stack = [node]
                while stack:
                    n = stack.pop()
                    if isinstance(n, ast.BinOp) and isinstance(n.op, optype):
                        self.done_chain.add(id(n))
                        stack += [n.left, n.right]
                spans = [self.src.pspan(t) for t in terms]
                name = "drop_conjunct" if optype is ast.BitAnd else "drop_disjunct"
                for i, t in enumerate(terms):
                    if i + 1 < len(terms):
                        s, e = spans[i][0], spans[i + 1][0]
                    else:
                        s, e = spans[i - 1][1], spans[i][1]
                    self.edits.append((t.lineno, t.col_offset, name, s, e, b""))
        elif isinstance(node.op, (ast.Add, ast.Sub)):
            def is_str(x):
                return isinstance(x, ast.JoinedStr) or (isinstance(x, ast.Constant) and isinstance(x.value, str))

            def is_num(x):
                return isinstance(x, ast.Constant) and isinstance(x.value, (int, float)) and not isinstance(x.value, bool)
            if not (is_str(node.left) or is_str(node.right) or (is_num(node.left) and is_num(node.right))):
                r = self.op_token(node.left, node.right, {b"+": b"-", b"-": b"+"})
                if r:
                    self.add(node, "plus_minus", *r)
        self.generic_visit(node)

    def visit_BoolOp(self, node):
        if isinstance(node.op, ast.And) and any(isinstance(p, ast.Assert) for p in self.parents[-1:]):
            spans = [self.src.pspan(t) for t in node.values]
            for i, t in enumerate(node.values):
                if i + 1 < len(node.values):
                    s, e = spans[i][0], spans[i + 1][0]
                else:
                    s, e = spans[i - 1][1], spans[i][1]
                self.edits.append((t.lineno, t.col_offset, "drop_conjunct", s, e, b""))
        self.generic_visit(node)

    def visit_AugAssign(self, node):
        if isinstance(node.op, (ast.Add, ast.Sub)):
            r = self.op_token(node.target, node.value, {b"+=": b"-=", b"-=": b"+="})
            if r:
                self.add(node, "plus_minus", *r)
        elif isinstance(node.op, (ast.BitAnd, ast.BitOr)):
            r = self.op_token(node.target, node.value, {b"&=": b"|=", b"|=": b"&="})
            if r:
                self.add(node, "and_or", *r)
        self.generic_visit(node)

    def visit_UnaryOp(self, node):
        if isinstance(node.op, ast.Invert):
            s, _ = self.src.span(node)
            if self.src.b[s:s + 1] == b"~":
                self.add(node, "drop_not", s, s + 1, b"")
        if self.extra_ops and isinstance(node.op, ast.USub) and not isinstance(node.operand, ast.Constant):
            s, _ = self.src.span(node)
            if self.src.b[s:s + 1] == b"-":
                self.add(node, "drop_neg", s, s + 1, b"")
        self.generic_visit(node)

    SWAP = {"any": "all", "all": "any", "max": "min", "min": "max", "maximum": "minimum", "minimum": "maximum",
            "amax": "amin", "amin": "amax", "argmax": "argmin", "argmin": "argmax",
            "gt": "ge", "ge": "gt", "lt": "le", "le": "lt", "logical_and": "logical_or", "logical_or": "logical_and"}
    SWAP_OP = {"any": "any_all", "all": "any_all", "gt": "cmp_boundary", "ge": "cmp_boundary", "lt": "cmp_boundary", "le": "cmp_boundary",
               "logical_and": "and_or", "logical_or": "and_or"}

    def visit_Call(self, node):
        f = node.func
        if isinstance(f, ast.Attribute):
            if f.attr in self.SWAP:
                _, e = self.src.span(f)
                s = e - len(f.attr)
                if self.src.b[s:e] == f.attr.encode():
                    self.add(node, self.SWAP_OP.get(f.attr, "max_min"), s, e, self.SWAP[f.attr].encode())
            if self.extra_ops and f.attr == "detach" and not node.args and not node.keywords:
                _, vs = self.src.span(f.value)
                _, ce = self.src.span(node)
                self.add(node, "drop_detach", vs, ce, b"")
            if self.extra_ops and f.attr in ("mean", "sum"):
                _, e = self.src.span(f)
                st = e - len(f.attr)
                if self.src.b[st:e] == f.attr.encode():
                    self.add(node, "mean_sum", st, e, b"sum" if f.attr == "mean" else b"mean")
            if f.attr == "clone" and not node.args and not node.keywords:
                _, vs = self.src.span(f.value)
                _, ce = self.src.span(node)
                self.add(node, "drop_clone", vs, ce, b"")
        if self.extra_ops:
            for kw in node.keywords:
                if kw.arg in ("dim", "axis", "on_dim", "dims"):
                    v = kw.value
                    neg = isinstance(v, ast.UnaryOp) and isinstance(v.op, ast.USub) and isinstance(v.operand, ast.Constant)
                    c = v.operand if neg else v
                    if isinstance(c, ast.Constant) and type(c.value) is int:
                        val = -c.value if neg else c.value
                        new = {0: 1, 1: 0, -1: -2, -2: -1}.get(val, val - 1)
                        st, e = self.src.span(v)
                        self.add(v, "axis", st, e, str(new).encode())
        # range()/arange() arguments count as index arithmetic
        fname = f.attr if isinstance(f, ast.Attribute) else (f.id if isinstance(f, ast.Name) else "")
        if fname in ("range", "arange"):
            for a in node.args:
                self.const_pm(a)
        self.generic_visit(node)

    def visit_Subscript(self, node):
        sl = node.slice
        if isinstance(sl, ast.Tuple) and len(sl.elts) >= 2:
            last = sl.elts[-1]
            head_ok = all(
                (isinstance(x, ast.Constant) and x.value is Ellipsis)
                or (isinstance(x, ast.Slice) and x.lower is None and x.upper is None and x.step is None)
                for x in sl.elts[:-1])
            if head_ok and isinstance(last, ast.Constant) and type(last.value) is int and last.value in (0, 1):
                s, e = self.src.span(last)
                self.add(last, "col01", s, e, b"1" if last.value == 0 else b"0")
                self.col01_consts.add(id(last))
        is_shape = isinstance(node.value, ast.Attribute) and node.value.attr == "shape"   # x.shape[-2] +-1 only crashes: skipped
        if not is_shape:
            for n in ast.walk(sl):
                self.const_pm(n)
        self.generic_visit(node)

    def const_pm(self, n):
        """n: a Constant int or -Constant int (small): +-1"""
        neg = False
        c = n
        if isinstance(n, ast.UnaryOp) and isinstance(n.op, ast.USub) and isinstance(n.operand, ast.Constant):
            c, neg = n.operand, True
        if not (isinstance(c, ast.Constant) and type(c.value) is int and abs(c.value) <= 3):
            return
        if id(c) in self.col01_consts or id(c) in getattr(self, "_pm_done", set()):
            return
        self.__dict__.setdefault("_pm_done", set()).add(id(c))
        v = -c.value if neg else c.value
        s, e = self.src.span(n)
        for d, name in ((1, "const+1"), (-1, "const-1")):
            self.edits.append((n.lineno, n.col_offset, name, s, e, str(v + d).encode()))


class ConstInArith(ast.NodeVisitor):
    """int constants that are direct operands of + / - with a non-constant partner (index / counter arithmetic)"""

    def __init__(self, enum: Enumerator):
        self.enum = enum

    def visit_BinOp(self, node):
        if isinstance(node.op, (ast.Add, ast.Sub)):
            for a, b in ((node.left, node.right), (node.right, node.left)):
                if isinstance(a, ast.Constant) and type(a.value) is int and not isinstance(b, ast.Constant):
                    # a negative literal on the right of a binary minus cannot be written in place: skip v-1 < 0 there
                    self.enum.const_pm(a)
        self.generic_visit(node)


def target_functions(tree: ast.Module, env):
    """{name: (FunctionDef, set(categories))} -- the property-carrying functions of the primary class and the helpers
    (same file) they call, transitively."""
    defs = {}
    primary = None
    for n in tree.body:
        if isinstance(n, ast.ClassDef):
            if n.name == env["cls"]:
                primary = n
            elif n.name.endswith("Env"):
                continue          # other env classes of the same file (improvement / dense-reward variants) are not swept
            for m in n.body:
                if isinstance(m, (ast.FunctionDef,)):
                    if n is primary or m.name not in defs:
                        defs[m.name] = m
        elif isinstance(n, ast.FunctionDef):
            defs.setdefault(n.name, n)
    if primary is None:
        return {}
    own = {m.name for m in primary.body if isinstance(m, ast.FunctionDef)}
    roots = {r: c for r, c in ROOTS.items() if r in own and (r in ("get_action_mask", "_step", "_reset", "_get_reward", "check_solution_validity")
                                                            or r in env.get("extra_roots", []))}
    out = {}
    work = list(roots.items())
    while work:
        name, cat = work.pop()
        if name in EXCLUDE or name not in defs:
            continue
        if name in out and cat in out[name][1]:
            continue
        out.setdefault(name, (defs[name], set()))[1].add(cat)
        for c in ast.walk(defs[name]):
            if isinstance(c, ast.Call):
                f = c.func
                callee = f.attr if isinstance(f, ast.Attribute) else (f.id if isinstance(f, ast.Name) else None)
                if callee and callee in defs and callee != name:
                    work.append((callee, cat))
    return out


def enumerate_mutants(env, repo=REPO):
    rel = "rl4co/envs/" + env["file"]
    text = (Path(repo) / rel).read_text()
    src = Src(text)
    tree = ast.parse(text)
    base_dump = ast.dump(tree)
    muts = []
    for fname, (fdef, cats) in sorted(target_functions(tree, env).items(), key=lambda kv: kv[1][0].lineno):
        en = Enumerator(src, fname)
        for stmt in fdef.body:
            en.parents = [fdef]
            en.visit(stmt)
        ca = ConstInArith(en)
        for stmt in fdef.body:
            ca.visit(stmt)
        seen = set()
        per_line = {}
        for (line, col, op, s, e, rep) in sorted(en.edits):
            if (s, e, rep) in seen:
                continue
            seen.add((s, e, rep))
            newb = src.b[:s] + rep + src.b[e:]
            try:
                new = newb.decode("utf-8")
                t2 = ast.parse(new)
                compile(new, rel, "exec")
            except (SyntaxError, ValueError, UnicodeDecodeError):
                continue
            if ast.dump(t2) == base_dump:
                continue
            k = per_line.setdefault((line, op), 0)
            per_line[(line, op)] = k + 1
            mid = "%s:%s:%d:%s%s" % (env["name"], fname, line, op, "" if k == 0 else ".%d" % (k + 1))
            diff = "".join(difflib.unified_diff(text.splitlines(True), new.splitlines(True), "a/" + rel, "b/" + rel, n=2))
            muts.append(dict(id=mid, env=env["name"], function=fname, line=line, col=col, operator=op, cats=sorted(cats),
                             file=rel, start=s, end=e, rep=rep.decode(), diff=diff))
    return muts


def select(muts, cap, seed=0):
    """deterministic choice of <= cap mutants: first one per (function, operator) group (so that every function and every
    operator kind is covered), then round-robin over the groups in operator-priority order."""
    if len(muts) <= cap:
        return list(muts)
    rng = random.Random("%d/%s" % (seed, muts[0]["env"]))
    groups = {}
    for m in muts:
        groups.setdefault((m["function"], m["operator"]), []).append(m)
    for g in groups.values():
        rng.shuffle(g)
    prio = {op: i for i, op in enumerate(OP_PRIORITY)}
    froot = {"get_action_mask": 0, "_step": 1, "check_solution_validity": 2, "_get_reward": 3, "_reset": 4}
    keys = sorted(groups, key=lambda k: (prio.get(k[1], 99), froot.get(k[0], 2.5), k[0]))
    chosen = []
    # pass 0 must cover every function and every operator kind: order keys so that new functions/operators come first
    cov_f, cov_o, first, rest = set(), set(), [], []
    for k in keys:
        if k[0] not in cov_f or k[1] not in cov_o:
            first.append(k)
            cov_f.add(k[0])
            cov_o.add(k[1])
        else:
            rest.append(k)
    order = first + rest
    while len(chosen) < cap:
        progressed = False
        for k in order:
            if groups[k] and len(chosen) < cap:
                chosen.append(groups[k].pop())
                progressed = True
        if not progressed:
            break
    return chosen



# ---------------------------------------------------------------------------------------------- second sweep: non-env modules
# name (= id prefix), file, {function pattern: checks}, pytest selection ("killed by tests").  A pattern is a qualified name
# ("process_logits", "DecodingStrategy.step"), "Class.*" or "*".  A check is "Cxx" or "Cxx@<VERIF_ONLY value>".
# These checks are not unit-scoped: the runner holds a per-property lock while a check runs (case files are named by property),
# and mutants of TRANSLATED files (the translator regenerates coq/theories/Gen/*.v from the tree a check is pointed at) run their
# checks with exclusive access to the Coq tree.
PT = "tests/test_policy.py"
TT = "tests/test_training.py"
MODULES = [
    dict(name="decoding", file="rl4co/utils/decoding.py", funcs={
        "process_logits": ["C10"], "modify_logits_for_top_k_filtering": ["C10"], "modify_logits_for_top_p_filtering": ["C10"],
        "get_log_likelihood": ["C11", "C13"],
        "DecodingStrategy.pre_decoder_hook": ["C12", "C11"], "DecodingStrategy.post_decoder_hook": ["C11", "C12"],
        "DecodingStrategy.step": ["C11", "C10", "C12"], "DecodingStrategy.greedy": ["C10", "C11"], "DecodingStrategy.sampling": ["C10", "C11"],
        "DecodingStrategy._select_best": ["C12"], "Greedy._step": ["C11"], "Sampling._step": ["C11"], "Evaluate._step": ["C11"],
        "BeamSearch.*": ["C13"]},
        tests=[["tests/test_utils.py", "-k", "top_k"], [PT, "-k", "(am_policy or multistart or beam_search) and not dpp"]]),
    dict(name="ops", file="rl4co/utils/ops.py", funcs={
        "_batchify_single": ["C12"], "batchify": ["C12"], "_unbatchify_single": ["C12"], "unbatchify": ["C12"],
        "gather_by_index": ["C12", "C03@tsp,cvrp"], "unbatchify_and_gather": ["C12", "C15"], "get_distance": ["C03@tsp,cvrp"],
        "get_tour_length": ["C03@tsp,cvrp"], "calculate_entropy": ["C10", "C16"], "get_num_starts": ["C12"], "select_start_nodes": ["C12"],
        "sample_n_random_actions": ["C12"]},
        tests=[["tests/test_utils.py", "-k", "batchify"], [PT, "-k", "multistart"]]),
    dict(name="baselines", file="rl4co/models/rl/reinforce/baselines.py", funcs={"*": ["C16", "C17", "C20"]}, tests=[[TT, "-k", "reinforce"]]),
    dict(name="transforms", file="rl4co/data/transforms.py", funcs={"*": ["C15"]}, tests=[[TT, "-k", "symnco"], ["tests/test_tasks.py", "-k", "eval"]]),
    dict(name="reinforce", file="rl4co/models/rl/reinforce/reinforce.py", funcs={"REINFORCE.calculate_loss": ["C16"], "REINFORCE.shared_step": ["C16"]},
         tests=[[TT, "-k", "reinforce"]]),
    dict(name="constructive_base", file="rl4co/models/common/constructive/base.py", funcs={"ConstructivePolicy.forward": ["C11", "C14"]},
         tests=[[PT, "-k", "(am_policy or multistart) and not dpp"]]),
    dict(name="dataset", file="rl4co/data/dataset.py", funcs={"*": ["C17"]}, tests=[[TT, "-k", "reinforce"]]),
    dict(name="rl_utils", file="rl4co/models/rl/common/utils.py", funcs={"RewardScaler.*": ["C20"]}, tests=[[TT, "-k", "test_ppo"]]),
    dict(name="losses", file="rl4co/models/zoo/symnco/losses.py", funcs={"*": ["C16"]}, tests=[[TT, "-k", "symnco"]]),
    dict(name="ppo", file="rl4co/models/rl/ppo/ppo.py", funcs={"PPO.shared_step": ["C16"]}, tests=[[TT, "-k", "test_ppo"]]),
    dict(name="symnco_model", file="rl4co/models/zoo/symnco/model.py", funcs={"SymNCO.shared_step": ["C16", "C15", "C12"]}, tests=[[TT, "-k", "symnco"]]),
    dict(name="pomo_model", file="rl4co/models/zoo/pomo/model.py", funcs={"POMO.shared_step": ["C16", "C15", "C12"]}, tests=[[TT, "-k", "pomo"]]),
    dict(name="eval", file="rl4co/tasks/eval.py", funcs={"*": ["C15"]}, tests=[["tests/test_tasks.py", "-k", "eval"]]),
    dict(name="fjsp_parser", file="rl4co/envs/scheduling/fjsp/parser.py", funcs={"*": ["C19"]}, tests=[["tests/test_envs.py", "-k", "scheduling_dataloader"]]),
    dict(name="env_base", file="rl4co/envs/common/base.py", funcs={"RL4COEnvBase.__getstate__": ["C19", "C17"], "RL4COEnvBase.__setstate__": ["C19", "C17"],
                                                                 "RL4COEnvBase.dataset": ["C19", "C17"]}, tests=[[TT, "-k", "reinforce"]]),
    dict(name="data_utils", file="rl4co/data/utils.py", funcs={"load_npz_to_tensordict": ["C19"], "save_tensordict_to_npz": ["C19"], "check_extension": ["C19"]},
         tests=[["tests/test_tasks.py", "-k", "eval"]]),
    dict(name="jssp_parser", file="rl4co/envs/scheduling/jssp/parser.py", funcs={"*": ["C19"]}, tests=[["tests/test_envs.py", "-k", "JSSPEnv"]]),
    dict(name="a2c", file="rl4co/models/rl/a2c/a2c.py", funcs={"*": ["C16"]}, tests=[[TT, "-k", "test_a2c"]]),
]
MOD_BY_NAME = {m["name"]: m for m in MODULES}
TRANSLATED = {"rl4co/data/transforms.py", "rl4co/models/rl/reinforce/baselines.py", "rl4co/models/zoo/symnco/losses.py",
              "rl4co/models/rl/reinforce/reinforce.py", "rl4co/models/rl/common/utils.py"}
MOD_SKIP_FUNCS = {"__init__", "__new__", "render", "list_files"}


def enumerate_module_mutants(mod, repo=REPO):
    rel = mod["file"]
    text = (Path(repo) / rel).read_text()
    src = Src(text)
    tree = ast.parse(text)
    base_dump = ast.dump(tree)
    defs = []       # (qualname, FunctionDef)
    for n in tree.body:
        if isinstance(n, ast.FunctionDef):
            defs.append((n.name, n))
        elif isinstance(n, ast.ClassDef):
            for m in n.body:
                if isinstance(m, ast.FunctionDef):
                    defs.append(("%s.%s" % (n.name, m.name), m))

    def checks_of(q):
        if q in mod["funcs"]:
            return mod["funcs"][q]
        if q.split(".")[-1] in MOD_SKIP_FUNCS:
            return None
        if "." in q and q.split(".")[0] + ".*" in mod["funcs"]:
            return mod["funcs"][q.split(".")[0] + ".*"]
        return mod["funcs"].get("*")
    muts = []
    for q, fdef in defs:
        checks = checks_of(q)
        if not checks:
            continue
        en = Enumerator(src, q, extra_ops=True)
        for stmt in fdef.body:
            en.parents = [fdef]
            en.visit(stmt)
        ca = ConstInArith(en)
        for stmt in fdef.body:
            ca.visit(stmt)
        seen, per_line = set(), {}
        for (line, col, op, st, e, rep) in sorted(en.edits):
            if (st, e, rep) in seen:
                continue
            seen.add((st, e, rep))
            newb = src.b[:st] + rep + src.b[e:]
            try:
                new = newb.decode("utf-8")
                t2 = ast.parse(new)
                compile(new, rel, "exec")
            except (SyntaxError, ValueError, UnicodeDecodeError):
                continue
            if ast.dump(t2) == base_dump:
                continue
            k = per_line.setdefault((line, op), 0)
            per_line[(line, op)] = k + 1
            mid = "%s:%s:%d:%s%s" % (mod["name"], q, line, op, "" if k == 0 else ".%d" % (k + 1))
            diff = "".join(difflib.unified_diff(text.splitlines(True), new.splitlines(True), "a/" + rel, "b/" + rel, n=2))
            muts.append(dict(id=mid, env=mod["name"], function=q, line=line, col=col, operator=op, cats=[], checks=list(checks),
                             file=rel, start=st, end=e, rep=rep.decode(), diff=diff, module=True))
    return muts


class RWLock:
    def __init__(self):
        self.c = threading.Condition()
        self.readers = 0
        self.writer = False
        self.wwait = 0

    def acquire(self, write):
        with self.c:
            if write:
                self.wwait += 1
                while self.writer or self.readers:
                    self.c.wait()
                self.wwait -= 1
                self.writer = True
            else:
                while self.writer or self.wwait:
                    self.c.wait()
                self.readers += 1

    def release(self, write):
        with self.c:
            if write:
                self.writer = False
            else:
                self.readers -= 1
            self.c.notify_all()


COQ_RW = RWLock()
PROP_LOCKS = {}
PROP_LOCKS_GUARD = threading.Lock()
BASE_CACHE = {}


def prop_lock(p):
    with PROP_LOCKS_GUARD:
        return PROP_LOCKS.setdefault(p, threading.Lock())


# ---------------------------------------------------------------------------------------------- running
LOCK = threading.Lock()
STATE = {"meta": {}, "mutants": {}}


def save_state():
    AUDIT.mkdir(exist_ok=True)
    tmp = JSON_OUT.with_suffix(".json.tmp")
    tmp.write_text(json.dumps(STATE, indent=1, sort_keys=True))
    tmp.replace(JSON_OUT)


def sh(cmd, cwd=None, env=None, timeout=None):
    t0 = time.time()
    try:
        p = subprocess.run(cmd, cwd=cwd, env=env, stdout=subprocess.PIPE, stderr=subprocess.STDOUT, text=True, timeout=timeout)
        return p.returncode, p.stdout, time.time() - t0
    except subprocess.TimeoutExpired as e:
        out = e.stdout or ""
        if isinstance(out, bytes):
            out = out.decode("utf-8", "replace")
        return 124, out + "\n[timeout]", time.time() - t0


def adapter_props():
    """which of C01..C06 each routing adapter serves, and which cXX_<unit>.py units exist"""
    code = ("import json\nfrom vt.envprops import adapters\n"
            "print('@@'+json.dumps({a.name: sorted(a.props) for a in adapters()}))\n")
    env = dict(os.environ, PYTHONPATH="/repo:%s" % VERIF, CUDA_VISIBLE_DEVICES="", PYTHONWARNINGS="ignore")
    rc, out, _ = sh([PY, "-W", "ignore", "-c", code], cwd=str(VERIF), env=env, timeout=300)
    m = re.search(r"@@(\{.*\})", out)
    props = json.loads(m.group(1)) if m else {}
    for unit in ("sched", "graph"):
        props[unit] = sorted("C%02d" % i for i in range(1, 7) if (VERIF / "vt" / "props" / ("c%02d_%s.py" % (i, unit))).exists())
    return props


def relevant_checks(env, mut, props):
    """ordered list of (property, VERIF_ONLY value or None)"""
    out = []
    served = props.get(env["unit"], [])
    for cat in ("dyn", "reward", "checker"):
        if cat in mut["cats"]:
            for p in CHECKS_BY_CAT[cat]:
                if p in served and (p, env["unit"]) not in out:
                    out.append((p, env["unit"]))
    if env.get("c07"):
        out.append(("C07", env["c07"]))
    if env.get("c08"):
        out.append(("C08", None))
    return out


class Worker:
    def __init__(self, k, props, deadline, replays_before):
        self.k = k
        self.tree = Path("/tmp/mutsweep_%d" % k)
        self.ev = Path("/tmp/mutsweep_ev_%d" % k)
        self.props = props
        self.deadline = deadline
        self.replays_before = replays_before
        self.baseline = {}

    def setup(self):
        sh(["git", "-C", str(REPO), "worktree", "remove", "--force", str(self.tree)])
        if self.tree.exists():
            shutil.rmtree(self.tree, ignore_errors=True)
        sh(["git", "-C", str(REPO), "worktree", "prune"])
        rc, out, _ = sh(["git", "-C", str(REPO), "worktree", "add", "-q", "--detach", str(self.tree), "HEAD"])
        if rc != 0:
            raise RuntimeError("cannot create worktree: " + out)
        self.ev.mkdir(exist_ok=True)

    def teardown(self):
        sh(["git", "-C", str(REPO), "worktree", "remove", "--force", str(self.tree)])
        sh(["git", "-C", str(REPO), "worktree", "prune"])
        shutil.rmtree(self.ev, ignore_errors=True)

    def drop_pyc(self, rel):
        d = (self.tree / rel).parent / "__pycache__"
        if d.exists():
            for p in d.glob(Path(rel).stem + ".*.pyc"):
                try:
                    p.unlink()
                except OSError:
                    pass

    def run_tests(self, env):
        e = dict(os.environ, PYTHONPATH=str(self.tree), OMP_NUM_THREADS="2", CUDA_VISIBLE_DEVICES="", PYTHONWARNINGS="ignore",
                 PYTHONHASHSEED="0")
        rc, out, secs = sh([PY, "-W", "ignore", "-m", "pytest", "-x", "-q", "-p", "no:cacheprovider", "--no-header"] + env["tests"],
                           cwd=str(self.tree), env=e, timeout=TEST_TIMEOUT)
        return rc, out, secs

    def run_tests_args(self, selections, timeout=240):
        """module sweep: several pytest selections, one after the other, stop at the first failure"""
        e = dict(os.environ, PYTHONPATH=str(self.tree), OMP_NUM_THREADS="2", CUDA_VISIBLE_DEVICES="", PYTHONWARNINGS="ignore",
                 PYTHONHASHSEED="0")
        total, outs = 0.0, ""
        for sel in selections:
            rc, out, secs = sh([PY, "-W", "ignore", "-m", "pytest", "-x", "-q", "-p", "no:cacheprovider", "--no-header"] + list(sel),
                               cwd=str(self.tree), env=e, timeout=timeout)
            total += secs
            outs += out
            if rc != 0:
                return rc, outs, total
        return 0, outs, total

    def run_check_locked(self, prop, only, exclusive):
        """one property at a time (case files are named by property); translated-file mutants own the Coq tree"""
        with prop_lock(prop):
            COQ_RW.acquire(exclusive)
            try:
                return self.run_check(prop, only)
            finally:
                COQ_RW.release(exclusive)

    def mod_baseline(self, mod, muts):
        need = []
        for m in muts:
            for c in m["checks"]:
                if c not in need:
                    need.append(c)
        rc, out, secs = self.run_tests_args(mod["tests"])
        base = {"tests_rc": rc, "tests_s": round(secs, 1), "checks": {}}
        if rc != 0:
            base["tests_tail"] = out[-600:]
        for c in need:
            with PROP_LOCKS_GUARD:
                cached = BASE_CACHE.get(c)
            if cached is None:
                p, _, only = c.partition("@")
                r = self.run_check_locked(p, only or None, False)
                cached = dict(violations=r["violations"], seconds=r["seconds"], rc=r["rc"], detail=r["detail"])
                with PROP_LOCKS_GUARD:
                    BASE_CACHE[c] = cached
            base["checks"][c] = cached
        with LOCK:
            STATE["meta"].setdefault("sweep2", {}).setdefault("baseline", {})[mod["name"]] = base
            save_state()
        return base

    def do_mod_mutant(self, mod, m, base):
        t0 = time.time()
        rel = m["file"]
        path = self.tree / rel
        orig = path.read_bytes()
        assert orig == (REPO / rel).read_bytes(), "worktree file differs from /repo before the edit"
        res = dict(id=m["id"], env=m["env"], function=m["function"], line=m["line"], operator=m["operator"], diff=m["diff"],
                   checks=[], worker=self.k, module=True, file=rel)
        # Exclusive access to the Coq tree for every translated-file mutant would serialise the whole sweep (and starve the other
        # workers); instead such mutants run concurrently and their SURVIVORS are re-run alone at the end (confirm phase of run2).
        exclusive = bool(getattr(self, "exclusive", False)) and rel in TRANSLATED
        try:
            path.write_bytes(orig[:m["start"]] + m["rep"].encode() + orig[m["end"]:])
            self.drop_pyc(rel)
            rc, out, secs = self.run_tests_args(mod["tests"])
            res["tests_s"] = round(secs, 1)
            if rc != 0:
                imp = bool(re.search(r"ImportError|SyntaxError|errors? during collection|ERROR collecting", out))
                res["status"] = "killed"
                res["killed_by"] = "import" if imp else "tests"
                fl = [ln for ln in out.splitlines() if re.match(r"^(E  |FAILED|ERROR)", ln)]
                res["detail"] = " | ".join(fl[:3])[:400]
                if rc in (124, -9):
                    res["detail"] = "hang: the module's tests did not terminate within the time limit"
            else:
                res["relevant"] = list(m["checks"])
                status = "survivor" if m["checks"] else "no_applicable_check"
                for c in m["checks"]:
                    if base["checks"].get(c, {}).get("violations"):
                        res["checks"].append(dict(check=c, skipped="baseline prints VIOLATION on the unchanged tree"))
                        continue
                    p, _, only = c.partition("@")
                    r = self.run_check_locked(p, only or None, exclusive)
                    tries = 0
                    # an edit of a file that is not translated cannot break a proof obligation: such a line is a race with a
                    # concurrent regeneration of coq/theories/Gen from another worker's (mutated, translated) tree -> run again
                    while (r["violations"] and rel not in TRANSLATED and tries < 2
                           and re.search(r"proof obligation no longer checks|gate: forbidden", r["detail"] or "")):
                        tries += 1
                        res.setdefault("anomalies", []).append("%s: retried (%s)" % (c, (r["detail"] or "")[:120]))
                        time.sleep(10)
                        r = self.run_check_locked(p, only or None, exclusive)
                    r["check"] = c
                    res["checks"].append(r)
                    if r["violations"]:
                        status = "killed"
                        res["killed_by"] = p
                        res["kill_kind"] = r["kind"]
                        if re.search(r"proof obligation no longer checks", r["detail"] or ""):
                            res["kill_kind"] = "broken-proof-obligation" + ("" if r["kind"] != "concrete" else "+concrete")
                        res["detail"] = r["detail"]
                        break
                    if r["rc"] in (124, -9):
                        status = "check_timeout"
                        res["timeout_in"] = p
                        res["detail"] = "%s did not terminate within %d s (no verdict printed)" % (c, self.check_timeout)
                        break
                res["status"] = status
        finally:
            path.write_bytes(orig)
            self.drop_pyc(rel)
        rc, out, _ = sh(["git", "-C", str(self.tree), "status", "--porcelain", "--untracked-files=no"])
        if out.strip():
            sh(["git", "-C", str(self.tree), "checkout", "--", "."])
        res["seconds"] = round(time.time() - t0, 1)
        return res

    def do_module(self, mod, muts):
        todo = [m for m in muts if STATE["mutants"].get(m["id"], {}).get("status") is None]
        if not todo or time.time() > self.deadline:
            return
        base = self.mod_baseline(mod, todo)
        if base["tests_rc"] != 0:
            print("[w%d] %s: the module's tests fail on the UNCHANGED tree: %s" % (self.k, mod["name"], base.get("tests_tail", "")[-300:]), flush=True)
            return
        for m in todo:
            if time.time() > self.deadline:
                print("[w%d] deadline reached in %s" % (self.k, mod["name"]), flush=True)
                return
            res = self.do_mod_mutant(mod, m, base)
            with LOCK:
                STATE["mutants"][m["id"]] = res
                save_state()
                try:
                    write_report2()
                except Exception as e:      # a report problem must never stop the sweep
                    print("report2 failed: %r" % (e,), flush=True)
            print("[w%d] %-62s %-13s %-8s %5.0fs" % (self.k, m["id"], res["status"], res.get("killed_by", ""), res["seconds"]), flush=True)

    def run_check(self, prop, only):
        e = dict(os.environ, RL4CO_REPO=str(self.tree), VERIF_EVIDENCE_DIR=str(self.ev), OMP_NUM_THREADS="2")
        e.pop("VERIF_ONLY", None)
        if only:
            e["VERIF_ONLY"] = only
        rc, out, secs = sh([str(VERIF / "check"), prop, "--tier", "quick"], cwd=str(VERIF), env=e, timeout=getattr(self, "check_timeout", CHECK_TIMEOUT))
        vio = [ln for ln in out.splitlines() if "VIOLATION" in ln]
        # replay files written by this run (printed, or named in the evidence): remove them again (they describe mutants)
        paths = set(re.findall(r"(/verif/replays/[\w.\-+@]+\.json)", out))
        evf = self.ev / ("%s.json" % prop)
        evtext = ""
        if evf.exists():
            evtext = evf.read_text()
            paths |= set(re.findall(r"(/verif/replays/[\w.\-+@]+\.json)", evtext))
        detail = ""
        kind = None
        if vio:
            kind = "concrete" if any("no-failing-input-found" not in ln for ln in vio) else "no-failing-input-found"
            if kind != "concrete" and re.search(r"check crashed|could not be evaluated|unit \w+ crashed", out + evtext):
                kind = "no-failing-input-found(harness crashed: fail-closed)"
            sigs = []
            for ln in vio:
                m = re.search(r"replay=(\S+)", ln)
                if m and os.path.exists(m.group(1)):
                    try:
                        o = json.load(open(m.group(1)))
                        sigs.append(o.get("signature") or "; ".join(str(x)[:200] for x in o.get("broken", []))[:400])
                    except Exception:
                        pass
            detail = " || ".join(s for s in sigs if s)[:700]
            if not detail and evtext:
                try:
                    bo = json.loads(evtext).get("coverage", {}).get("broken_obligations", [])
                    detail = " || ".join(str(x)[:250] for x in bo[:2])
                except Exception:
                    pass
            if not detail:
                detail = " || ".join(ln.strip()[:200] for ln in vio[:2])
        for p in paths:
            if os.path.basename(p) not in self.replays_before:
                try:
                    os.unlink(p)
                except OSError:
                    pass
        return dict(rc=rc, violations=len(vio), kind=kind, detail=detail, seconds=round(secs, 1),
                    tail="" if vio or rc == 0 else out[-600:])

    def do_baseline(self, env, muts):
        """the unchanged worktree must pass the env's tests and every check that will be used"""
        need = []
        for m in muts:
            for c in relevant_checks(env, m, self.props):
                if c not in need:
                    need.append(c)
        rc, out, secs = self.run_tests(env)
        base = {"tests_rc": rc, "tests_s": round(secs, 1), "checks": {}}
        if rc != 0:
            base["tests_tail"] = out[-500:]
        for (p, only) in need:
            r = self.run_check(p, only)
            base["checks"]["%s/%s" % (p, only or "-")] = dict(violations=r["violations"], seconds=r["seconds"], rc=r["rc"], detail=r["detail"])
        with LOCK:
            STATE["meta"].setdefault("baseline", {})[env["name"]] = base
            save_state()
        return base

    def do_mutant(self, env, m, base):
        t0 = time.time()
        rel = m["file"]
        path = self.tree / rel
        orig = path.read_bytes()
        assert orig == (REPO / rel).read_bytes(), "worktree file differs from /repo before the edit"
        res = dict(id=m["id"], env=m["env"], function=m["function"], line=m["line"], operator=m["operator"], diff=m["diff"],
                   checks=[], worker=self.k)
        try:
            path.write_bytes(orig[:m["start"]] + m["rep"].encode() + orig[m["end"]:])
            self.drop_pyc(rel)
            rc, out, secs = self.run_tests(env)
            res["tests_s"] = round(secs, 1)
            if rc != 0:
                imp = bool(re.search(r"ImportError|SyntaxError|errors? during collection|ERROR collecting", out))
                res["status"] = "killed"
                res["killed_by"] = "import" if imp else "tests"
                fl = [ln for ln in out.splitlines() if re.match(r"^(E  |FAILED|ERROR)", ln)]
                res["detail"] = " | ".join(fl[:3])[:400]
                if rc in (124, -9) or (not fl and secs > TEST_TIMEOUT - 5):
                    res["detail"] = "hang: the env's test did not terminate within %d s (rollout never finishes)" % TEST_TIMEOUT
            else:
                checks = relevant_checks(env, m, self.props)
                res["relevant"] = ["%s/%s" % (p, o or "-") for p, o in checks]
                status = "survivor"
                if not checks:
                    status = "no_applicable_check"
                for (p, only) in checks:
                    key = "%s/%s" % (p, only or "-")
                    if base["checks"].get(key, {}).get("violations"):
                        res["checks"].append(dict(check=key, skipped="baseline prints VIOLATION on the unchanged tree"))
                        continue
                    r = self.run_check(p, only)
                    tries = 0
                    # an env edit cannot break a proof obligation (no env file is a translated unit): such a line is a build race with
                    # somebody else's make / a concurrent coqc of the same Properties file -> run the check again
                    while r["violations"] and re.search(r"proof obligation no longer checks|gate: forbidden", r["detail"]) and tries < 2:
                        tries += 1
                        res.setdefault("anomalies", []).append("%s: retried (%s)" % (key, r["detail"][:120]))
                        time.sleep(5)
                        r = self.run_check(p, only)
                    r["check"] = key
                    res["checks"].append(r)
                    if r["violations"]:
                        status = "killed"
                        res["killed_by"] = p
                        res["kill_kind"] = r["kind"]
                        res["detail"] = r["detail"]
                        break
                    if r["rc"] in (124, -9):
                        # the check did not finish (the mutant makes the real env spin inside the harness): neither a VIOLATION
                        # nor a clean pass; recorded separately, remaining checks skipped (they would spin as well)
                        status = "check_timeout"
                        res["timeout_in"] = p
                        res["detail"] = "%s did not terminate within %d s (no verdict printed)" % (key, CHECK_TIMEOUT)
                        break
                    if r["rc"] not in (0,):
                        res.setdefault("anomalies", []).append("%s rc=%d without VIOLATION" % (key, r["rc"]))
                res["status"] = status
        finally:
            path.write_bytes(orig)
            self.drop_pyc(rel)
        rc, out, _ = sh(["git", "-C", str(self.tree), "status", "--porcelain", "--untracked-files=no"])
        if out.strip():
            sh(["git", "-C", str(self.tree), "checkout", "--", "."])
        res["seconds"] = round(time.time() - t0, 1)
        return res

    def do_env(self, env, muts):
        todo = [m for m in muts if STATE["mutants"].get(m["id"], {}).get("status") is None]
        if not todo or time.time() > self.deadline:
            return
        base = self.do_baseline(env, todo)
        if base["tests_rc"] != 0:
            print("[w%d] %s: the env's own tests fail on the UNCHANGED tree; env skipped" % (self.k, env["name"]), flush=True)
            return
        for m in todo:
            if time.time() > self.deadline:
                print("[w%d] deadline reached in %s" % (self.k, env["name"]), flush=True)
                return
            res = self.do_mutant(env, m, base)
            with LOCK:
                STATE["mutants"][m["id"]] = res
                save_state()
                write_report()
            print("[w%d] %-58s %-9s %-8s %5.0fs" % (self.k, m["id"], res["status"], res.get("killed_by", ""), res["seconds"]), flush=True)


def run(args):
    global STATE
    names = [x for x in (args.envs.split(",") if args.envs else [e["name"] for e in ENVS]) if x]
    if JSON_OUT.exists() and not args.fresh:
        STATE = json.loads(JSON_OUT.read_text())
    STATE.setdefault("meta", {})
    STATE.setdefault("mutants", {})
    rc, head, _ = sh(["git", "-C", str(REPO), "rev-parse", "HEAD"])
    rc, dirty, _ = sh(["git", "-C", str(REPO), "status", "--porcelain", "--untracked-files=no"])
    if dirty.strip():
        print("WARNING: /repo has uncommitted changes; the worktrees are made from HEAD and will differ:\n" + dirty)
    props = adapter_props()
    plan = {}
    for n in names:
        env = ENV_BY_NAME[n]
        allm = enumerate_mutants(env)
        sel = select(allm, args.cap)
        plan[n] = sel
        STATE["meta"].setdefault("enumerated", {})[n] = dict(total=len(allm), selected=len(sel),
                                                            selected_ids=[m["id"] for m in sel])
    STATE["meta"].update(repo_head=head.strip(), cap=args.cap, seed=0, started=time.strftime("%Y-%m-%d %H:%M:%S"),
                         adapter_props=props, tool="tools/mutation_sweep.py")
    save_state()
    # groups: envs that share generated case files (units sched / graph; C08 has no VERIF_ONLY) are run by ONE worker
    groups, by_group = [], {}
    for n in names:
        g = ENV_BY_NAME[n].get("group", n)
        if g not in by_group:
            by_group[g] = []
            groups.append(g)
        by_group[g].append(n)
    # the long serial groups start first so that they do not become the tail; routing envs keep their order
    groups.sort(key=lambda g: 0 if g in ("sched",) else 1)
    q = queue.Queue()
    for g in groups:
        q.put(g)
    deadline = time.time() + args.minutes * 60
    replays_before = set(os.listdir(VERIF / "replays")) if (VERIF / "replays").exists() else set()
    workers = [Worker(k, props, deadline, replays_before) for k in range(min(args.workers, 4, len(groups)))]

    def loop(w):
        try:
            w.setup()
            while time.time() < deadline:
                try:
                    g = q.get_nowait()
                except queue.Empty:
                    break
                for n in by_group[g]:
                    print("[w%d] === %s (%d mutants)" % (w.k, n, len(plan[n])), flush=True)
                    w.do_env(ENV_BY_NAME[n], plan[n])
        finally:
            w.teardown()

    ths = [threading.Thread(target=loop, args=(w,)) for w in workers]
    for t in ths:
        t.start()
        time.sleep(2)
    for t in ths:
        t.join()
    STATE["meta"]["finished"] = time.strftime("%Y-%m-%d %H:%M:%S")
    save_state()
    write_report()
    print("done; see %s and %s" % (JSON_OUT, MD_OUT))


def followup(args):
    """Extra checks OUTSIDE the prescribed per-function sets, on survivors only: a survivor in mask/step/reset code is also
    run against C03 (several envs compute the reward from bookkeeping accumulated in `_step`).  A kill here is recorded with
    `followup_kill: true` (the prescribed set C01,C02,C04,C05 did not see the edit)."""
    global STATE
    STATE = json.loads(JSON_OUT.read_text())
    if args.merge:
        for mid, res in json.loads(Path(args.merge).read_text()).items():
            STATE["mutants"][mid] = res
        save_state()
        write_report()
        return
    props = adapter_props()
    replays_before = set(os.listdir(VERIF / "replays")) if (VERIF / "replays").exists() else set()
    w = Worker(9, props, time.time() + args.minutes * 60, replays_before)
    w.setup()
    try:
        cache = {}
        for mid, res in sorted(STATE["mutants"].items()):
            if res.get("status") != "survivor" or res.get("followup") is not None or time.time() > w.deadline:
                continue
            env = ENV_BY_NAME[res["env"]]
            if args.envs and res["env"] not in args.envs.split(","):
                continue
            if res["env"] not in cache:
                cache[res["env"]] = {m["id"]: m for m in enumerate_mutants(env)}
            m = cache[res["env"]].get(mid)
            if m is None or "dyn" not in m["cats"] or "C03" not in props.get(env["unit"], []):
                continue
            if any(c.get("check", "").startswith("C03/") for c in res.get("checks", [])):
                continue
            path = w.tree / m["file"]
            orig = path.read_bytes()
            try:
                path.write_bytes(orig[:m["start"]] + m["rep"].encode() + orig[m["end"]:])
                w.drop_pyc(m["file"])
                r = w.run_check("C03", env["unit"])
            finally:
                path.write_bytes(orig)
                w.drop_pyc(m["file"])
            r["check"] = "C03/%s" % env["unit"]
            res["followup"] = [r]
            if r["violations"]:
                res.update(status="killed", killed_by="C03", kill_kind=r["kind"], detail=r["detail"], followup_kill=True)
            STATE["mutants"][mid] = res
            if args.side:      # a sweep is still running and owns the json: keep the results aside, merge with `followup --merge`
                side = json.loads(Path(args.side).read_text()) if Path(args.side).exists() else {}
                side[mid] = res
                Path(args.side).write_text(json.dumps(side, indent=1))
            else:
                save_state()
                write_report()
            print("%-58s followup C03: %s" % (mid, "KILLED (%s)" % r["kind"] if r["violations"] else "still survives"), flush=True)
    finally:
        w.teardown()


def run2(args):
    """second sweep: the non-env modules of MODULES"""
    global STATE
    names = [x for x in (args.modules.split(",") if args.modules else [m["name"] for m in MODULES]) if x]
    if JSON_OUT.exists():
        STATE = json.loads(JSON_OUT.read_text())
    STATE.setdefault("meta", {})
    STATE.setdefault("mutants", {})
    rc, head, _ = sh(["git", "-C", str(REPO), "rev-parse", "HEAD"])
    plan = {}
    meta2 = STATE["meta"].setdefault("sweep2", {})
    for n in names:
        allm = enumerate_module_mutants(MOD_BY_NAME[n])
        sel = select(allm, args.cap)
        plan[n] = sel
        meta2.setdefault("enumerated", {})[n] = dict(total=len(allm), selected=len(sel), selected_ids=[m["id"] for m in sel])
    meta2.update(repo_head=head.strip(), cap=args.cap, started=meta2.get("started") or time.strftime("%Y-%m-%d %H:%M:%S"))
    meta2.pop("finished", None)
    save_state()
    q = queue.Queue()
    for n in names:
        q.put(n)
    deadline = time.time() + args.minutes * 60
    replays_before = set(os.listdir(VERIF / "replays")) if (VERIF / "replays").exists() else set()
    workers = [Worker(k, {}, deadline, replays_before) for k in range(min(args.workers, 4, len(names)))]
    for w in workers:
        w.check_timeout = 600

    def loop(w):
        try:
            w.setup()
            while time.time() < deadline:
                try:
                    n = q.get_nowait()
                except queue.Empty:
                    break
                print("[w%d] === %s (%d mutants)" % (w.k, n, len(plan[n])), flush=True)
                try:
                    w.do_module(MOD_BY_NAME[n], plan[n])
                except Exception as e:
                    import traceback
                    print("[w%d] module %s aborted: %s" % (w.k, n, traceback.format_exc()[-800:]), flush=True)
        finally:
            w.teardown()

    ths = [threading.Thread(target=loop, args=(w,)) for w in workers]
    for t in ths:
        t.start()
        time.sleep(2)
    for t in ths:
        t.join()
    # confirm phase: survivors in translated files are re-run alone (nobody else regenerates coq/theories/Gen meanwhile)
    redo = [m for n in names for m in plan[n] if m["file"] in TRANSLATED
            and STATE["mutants"].get(m["id"], {}).get("status") == "survivor" and not STATE["mutants"][m["id"]].get("confirmed_alone")]
    if redo:
        w = Worker(8, {}, time.time() + 3600, replays_before)
        w.check_timeout = 600
        w.exclusive = True
        w.setup()
        try:
            for m in redo:
                base = STATE["meta"]["sweep2"].get("baseline", {}).get(m["env"], {"checks": {}})
                res = w.do_mod_mutant(MOD_BY_NAME[m["env"]], m, base)
                res["confirmed_alone"] = True
                STATE["mutants"][m["id"]] = res
                save_state()
                print("[confirm] %-58s %-13s %-8s" % (m["id"], res["status"], res.get("killed_by", "")), flush=True)
        finally:
            w.teardown()
    STATE["meta"]["sweep2"]["finished"] = time.strftime("%Y-%m-%d %H:%M:%S")
    save_state()
    write_report2()
    print("done; see %s and %s" % (JSON_OUT, MD_OUT2))


MD_OUT2 = AUDIT / "MUTATION_SWEEP_2.md"


def write_report2():
    ms = {k: v for k, v in STATE.get("mutants", {}).items() if v.get("module")}
    meta = STATE.get("meta", {}).get("sweep2", {})
    tri = {}
    tp = AUDIT / "mutation_sweep_triage_2.json"
    if tp.exists():
        try:
            tri = json.loads(tp.read_text())
        except Exception:
            tri = {}
    notes = tri.pop("_notes", []) if isinstance(tri, dict) else []
    tri = {k: v for k, v in tri.items() if isinstance(v, dict)}
    L = ["# Mutation sweep 2: non-environment code (decoding, ops, policies, transforms, datasets, baselines, losses, parsers) against C10-C20\n"]
    L.append("Generated by `tools/mutation_sweep.py run2` (development audit, not a registered check). /repo HEAD `%s`, cap %s mutants per source file, "
             "seed 0, started %s%s.\n" % (meta.get("repo_head", "?")[:10], meta.get("cap"), meta.get("started"),
                                          (", finished " + meta["finished"]) if meta.get("finished") else " (RUNNING / partial)"))
    L.append("Per mutant: the module's tests (`-k` subsets of tests/test_*.py, \"killed by tests\"), then the checks listed for the function in the "
             "tool's MODULES table, `RL4CO_REPO=<tree> ./check Cxx --tier quick`, stopping at the first VIOLATION. One worker runs a given property at a "
             "time; mutants of translated files run their checks with exclusive access to the Coq tree.\n")
    if notes:
        L.append("## Notes on this run\n")
        L += ["* " + n for n in notes] + [""]
    props = ["import", "tests", "C03", "C10", "C11", "C12", "C13", "C14", "C15", "C16", "C17", "C19", "C20"]
    L.append("## Kill matrix\n")
    L.append("| module (file) | enumerated | selected | run | " + " | ".join(props) + " | survivors | check timeout | concrete / broken proof / no-input |")
    L.append("|---|---|---|---|" + "---|" * len(props) + "---|---|---|")
    tot = {}
    for mod in MODULES:
        n = mod["name"]
        en = meta.get("enumerated", {}).get(n)
        rows = [m for m in ms.values() if m["env"] == n]
        if not en and not rows:
            continue
        cnt = {p: sum(1 for m in rows if m.get("killed_by") == p) for p in props}
        surv = sum(1 for m in rows if m["status"] == "survivor")
        tmo = sum(1 for m in rows if m["status"] == "check_timeout")
        conc = sum(1 for m in rows if m.get("kill_kind") == "concrete")
        brk = sum(1 for m in rows if str(m.get("kill_kind", "")).startswith("broken-proof"))
        noinp = sum(1 for m in rows if str(m.get("kill_kind", "")).startswith("no-failing-input-found"))
        L.append("| %s (`%s`) | %s | %s | %d | %s | %d | %d | %d / %d / %d |" % (
            n, mod["file"].replace("rl4co/", ""), en["total"] if en else "?", en["selected"] if en else "?", len(rows),
            " | ".join(str(cnt[p] or "") for p in props), surv, tmo, conc, brk, noinp))
        for k, v in list(cnt.items()) + [("run", len(rows)), ("surv", surv), ("tmo", tmo), ("conc", conc), ("brk", brk), ("noinp", noinp),
                                         ("enum", en["total"] if en else 0), ("sel", en["selected"] if en else 0)]:
            tot[k] = tot.get(k, 0) + v
    if tot:
        L.append("| **all** | %d | %d | %d | %s | %d | %d | %d / %d / %d |\n" % (
            tot["enum"], tot["sel"], tot["run"], " | ".join(str(tot.get(p) or "") for p in props), tot["surv"], tot["tmo"], tot["conc"], tot["brk"], tot["noinp"]))
    ops = sorted({m["operator"] for m in ms.values()}, key=lambda o: OP_PRIORITY.index(o) if o in OP_PRIORITY else 99)
    L.append("## By operator\n")
    L.append("| operator | run | killed by tests/import | killed by checks | survivors |")
    L.append("|---|---|---|---|---|")
    for o in ops:
        rows = [m for m in ms.values() if m["operator"] == o]
        L.append("| %s | %d | %d | %d | %d |" % (o, len(rows), sum(1 for m in rows if m.get("killed_by") in ("tests", "import")),
                                             sum(1 for m in rows if str(m.get("killed_by", "")).startswith("C")),
                                             sum(1 for m in rows if m["status"] == "survivor")))
    L.append("")
    if tri:
        L.append("## Triage of the survivors (by reading the code; distinguishing inputs confirmed on both trees)\n")
        for verdict, title in (("gap", "REAL GAPS"), ("equivalent", "EQUIVALENT mutants"), ("outside", "Outside the swept properties"), ("open", "Not yet triaged")):
            rows = [(k, v) for k, v in sorted(tri.items()) if v.get("verdict") == verdict]
            if not rows:
                continue
            L.append("### %s (%d)\n" % (title, len(rows)))
            for k, v in rows:
                L.append("* `%s` -- %s" % (k, v.get("reason", "")))
                if v.get("input"):
                    L.append("  * distinguishing input: %s" % v["input"])
                if v.get("stream"):
                    L.append("  * belongs in: %s" % v["stream"])
            L.append("")
    L.append("## Per module\n")
    for mod in MODULES:
        n = mod["name"]
        rows = sorted((m for m in ms.values() if m["env"] == n), key=lambda m: (m["line"], m["id"]))
        en = meta.get("enumerated", {}).get(n)
        if not rows and not en:
            continue
        L.append("### %s (`%s`)\n" % (n, mod["file"]))
        if en:
            pend = [i for i in en.get("selected_ids", []) if i not in ms]
            L.append("enumerated %d single-site mutants, selected %d, run %d%s. Tests: %s\n" % (
                en["total"], en["selected"], len(rows), (", NOT RUN (budget): %d" % len(pend)) if pend else "",
                "; ".join("`pytest %s`" % " ".join(t) for t in mod["tests"])))
        b = meta.get("baseline", {}).get(n)
        if b:
            L.append("baseline on the unchanged worktree: tests rc=%s (%ss); checks %s\n" % (
                b["tests_rc"], b["tests_s"], ", ".join("%s %s %.0fs" % (k, "VIOLATION(!)" if v["violations"] else "ok", v["seconds"]) for k, v in b["checks"].items())))
        if rows:
            L.append("| mutant | outcome | by | kind | checks run | s | detail |")
            L.append("|---|---|---|---|---|---|---|")
            for m in rows:
                L.append("| `%s` | %s | %s | %s | %s | %.0f | %s |" % (
                    m["id"], m["status"].upper() if m["status"] == "survivor" else m["status"], m.get("killed_by", ""), m.get("kill_kind", "") or "",
                    " ".join(c["check"] for c in m.get("checks", []) if "skipped" not in c), m["seconds"],
                    (m.get("detail", "") or "").replace("|", "\\|").replace("\n", " ")[:160]))
            L.append("")
            surv = [m for m in rows if m["status"] in ("survivor", "no_applicable_check", "check_timeout")]
            if surv:
                L.append("Survivors, with their diffs:\n")
                for m in surv:
                    t = tri.get(m["id"], {})
                    L.append("* `%s` (%s)%s" % (m["id"], m["status"], (" -- **%s**: %s" % (t.get("verdict", "").upper(), t.get("reason", ""))) if t else ""))
                    L.append("```diff\n" + m["diff"].rstrip("\n") + "\n```")
                L.append("")
    MD_OUT2.write_text("\n".join(L) + "\n")


# ---------------------------------------------------------------------------------------------- report
def write_report():
    ms = {k: v for k, v in STATE.get("mutants", {}).items() if not v.get("module")}
    meta = STATE.get("meta", {})
    tri = {}
    tp = AUDIT / "mutation_sweep_triage.json"
    if tp.exists():
        try:
            tri = json.loads(tp.read_text())
        except Exception:
            tri = {}
    notes = tri.pop("_notes", []) if isinstance(tri, dict) else []
    L = []
    L.append("# Mutation sweep of rl4co/envs/**/env.py against the registered checks (development audit)\n")
    L.append("Generated by `tools/mutation_sweep.py` (not a registered check). /repo HEAD `%s`, cap %s mutants per environment, seed 0, "
             "started %s%s.\n" % (meta.get("repo_head", "?")[:10], meta.get("cap"), meta.get("started"),
                                  (", finished " + meta["finished"]) if meta.get("finished") else " (RUNNING / partial)"))
    L.append("One mutant = one single-site edit applied to a throw-away git worktree of /repo. Order per mutant: the env's own test in "
             "`tests/test_envs.py` (\"killed by tests\"), then the relevant checks `RL4CO_REPO=<tree> VERIF_ONLY=<unit> ./check Cxx --tier quick` "
             "(mask/step/reset: C01,C02,C04,C05; reward: C03,C04; checker: C06; scheduling +C07; FLP/MCP +C08), stopping at the first VIOLATION.\n")
    if notes:
        L.append("## Notes on this run\n")
        for n in notes:
            L.append("* " + n)
        L.append("")
    props = ["import", "tests", "C01", "C02", "C03", "C04", "C05", "C06", "C07", "C08"]
    L.append("## Kill matrix\n")
    L.append("| env | enumerated | selected | run | " + " | ".join(props) + " | survivors | check timeout | no check | concrete / no-input |")
    L.append("|---|---|---|---|" + "---|" * len(props) + "---|---|---|---|")
    tot = dict.fromkeys(props + ["run", "surv", "nochk", "conc", "noinp", "enum", "sel"], 0)
    for e in ENVS:
        n = e["name"]
        en = meta.get("enumerated", {}).get(n)
        rows = [m for m in ms.values() if m["env"] == n]
        if not en and not rows:
            continue
        cnt = {p: sum(1 for m in rows if m.get("killed_by") == p) for p in props}
        surv = sum(1 for m in rows if m["status"] == "survivor")
        nochk = sum(1 for m in rows if m["status"] == "no_applicable_check")
        tmo = sum(1 for m in rows if m["status"] == "check_timeout")
        tot["tmo"] = tot.get("tmo", 0) + tmo
        conc = sum(1 for m in rows if m.get("kill_kind") == "concrete")
        noinp = sum(1 for m in rows if str(m.get("kill_kind", "")).startswith("no-failing-input-found"))
        L.append("| %s | %s | %s | %d | %s | %d | %d | %d | %d / %d |" % (
            n, en["total"] if en else "?", en["selected"] if en else "?", len(rows), " | ".join(str(cnt[p] or "") for p in props), surv, tmo, nochk, conc, noinp))
        for p in props:
            tot[p] += cnt[p]
        tot["run"] += len(rows); tot["surv"] += surv; tot["nochk"] += nochk; tot["conc"] += conc; tot["noinp"] += noinp
        tot["enum"] += en["total"] if en else 0; tot["sel"] += en["selected"] if en else 0
    L.append("| **all** | %d | %d | %d | %s | %d | %d | %d | %d / %d |\n" % (
        tot["enum"], tot["sel"], tot["run"], " | ".join(str(tot[p] or "") for p in props), tot["surv"], tot.get("tmo", 0), tot["nochk"], tot["conc"], tot["noinp"]))
    L.append("\"concrete / no-input\": of the mutants killed by a check, how many were reported with a concrete replay of the property failing on "
             "the implementation vs. only as `no-failing-input-found` (model and implementation disagree, search found no property failure).\n")
    # operator matrix
    ops = sorted({m["operator"] for m in ms.values()}, key=lambda o: OP_PRIORITY.index(o) if o in OP_PRIORITY else 99)
    L.append("## By operator\n")
    L.append("| operator | run | killed by tests/import | killed by checks | survivors | no check |")
    L.append("|---|---|---|---|---|---|")
    for o in ops:
        rows = [m for m in ms.values() if m["operator"] == o]
        L.append("| %s | %d | %d | %d | %d | %d |" % (o, len(rows), sum(1 for m in rows if m.get("killed_by") in ("tests", "import")),
                                                  sum(1 for m in rows if str(m.get("killed_by", "")).startswith("C")),
                                                  sum(1 for m in rows if m["status"] == "survivor"),
                                                  sum(1 for m in rows if m["status"] == "no_applicable_check")))
    L.append("")
    if tri:
        L.append("## Triage of the survivors (by reading the code; distinguishing inputs confirmed on both trees)\n")
        for verdict, title in (("gap", "REAL GAPS"), ("equivalent", "EQUIVALENT mutants"), ("outside", "Outside the swept properties"), ("open", "Not yet triaged")):
            rows = [(k, v) for k, v in sorted(tri.items()) if v.get("verdict") == verdict]
            if not rows:
                continue
            L.append("### %s (%d)\n" % (title, len(rows)))
            for k, v in rows:
                L.append("* `%s` -- %s" % (k, v.get("reason", "")))
                if v.get("input"):
                    L.append("  * distinguishing input: %s" % v["input"])
                if v.get("stream"):
                    L.append("  * belongs in: %s" % v["stream"])
            L.append("")
    L.append("## Per environment\n")
    for e in ENVS:
        n = e["name"]
        rows = sorted((m for m in ms.values() if m["env"] == n), key=lambda m: (m["line"], m["id"]))
        en = meta.get("enumerated", {}).get(n)
        if not rows and not en:
            continue
        L.append("### %s (`rl4co/envs/%s`)\n" % (n, e["file"]))
        if en:
            pend = [i for i in en.get("selected_ids", []) if i not in ms]
            L.append("enumerated %d single-site mutants, selected %d, run %d%s.\n" % (en["total"], en["selected"], len(rows),
                                                                                  (", NOT RUN (budget): %d" % len(pend)) if pend else ""))
        b = meta.get("baseline", {}).get(n)
        if b:
            L.append("baseline on the unchanged worktree: tests rc=%s (%ss); checks %s\n" % (
                b["tests_rc"], b["tests_s"], ", ".join("%s %s %.0fs" % (k, "VIOLATION(!)" if v["violations"] else "ok", v["seconds"]) for k, v in b["checks"].items())))
        if rows:
            L.append("| mutant | outcome | by | kind | checks run | s | detail |")
            L.append("|---|---|---|---|---|---|---|")
            for m in rows:
                L.append("| `%s` | %s | %s | %s | %s | %.0f | %s |" % (
                    m["id"], m["status"].upper() if m["status"] == "survivor" else m["status"], m.get("killed_by", "") + (" (follow-up only)" if m.get("followup_kill") else ""), m.get("kill_kind", "") or "",
                    " ".join(c["check"].split("/")[0] for c in m.get("checks", []) if "skipped" not in c), m["seconds"],
                    (m.get("detail", "") or "").replace("|", "\\|").replace("\n", " ")[:160]))
            L.append("")
            surv = [m for m in rows if m["status"] in ("survivor", "no_applicable_check", "check_timeout")]
            if surv:
                L.append("Survivors / no applicable check, with their diffs:\n")
                for m in surv:
                    t = tri.get(m["id"], {})
                    L.append("* `%s` (%s)%s" % (m["id"], m["status"], (" -- **%s**: %s" % (t.get("verdict", "").upper(), t.get("reason", ""))) if t else ""))
                    L.append("```diff\n" + m["diff"].rstrip("\n") + "\n```")
                L.append("")
    MD_OUT.write_text("\n".join(L) + "\n")


def main():
    global STATE
    ap = argparse.ArgumentParser(description=__doc__, formatter_class=argparse.RawDescriptionHelpFormatter)
    sub = ap.add_subparsers(dest="cmd", required=True)
    a = sub.add_parser("list"); a.add_argument("--envs", default=""); a.add_argument("--cap", type=int, default=25); a.add_argument("--all", action="store_true")
    a = sub.add_parser("run"); a.add_argument("--envs", default=""); a.add_argument("--cap", type=int, default=25)
    a.add_argument("--workers", type=int, default=4); a.add_argument("--minutes", type=float, default=150); a.add_argument("--fresh", action="store_true")
    sub.add_parser("report")
    a = sub.add_parser("list2"); a.add_argument("--modules", default=""); a.add_argument("--cap", type=int, default=20); a.add_argument("--all", action="store_true")
    a = sub.add_parser("run2"); a.add_argument("--modules", default=""); a.add_argument("--cap", type=int, default=20)
    a.add_argument("--workers", type=int, default=4); a.add_argument("--minutes", type=float, default=150)
    sub.add_parser("report2")
    a = sub.add_parser("followup"); a.add_argument("--minutes", type=float, default=20); a.add_argument("--envs", default="")
    a.add_argument("--side", default=""); a.add_argument("--merge", default="")
    a = sub.add_parser("show"); a.add_argument("id")
    a = sub.add_parser("apply"); a.add_argument("id"); a.add_argument("tree")
    args = ap.parse_args()
    if args.cmd == "list":
        for n in (args.envs.split(",") if args.envs else [e["name"] for e in ENVS]):
            allm = enumerate_mutants(ENV_BY_NAME[n])
            sel = allm if args.all else select(allm, args.cap)
            byf = {}
            for m in allm:
                byf.setdefault(m["function"], 0)
                byf[m["function"]] += 1
            print("== %s: %d enumerated (%s), %d listed" % (n, len(allm), ", ".join("%s %d" % kv for kv in byf.items()), len(sel)))
            for m in sel:
                chg = [ln for ln in m["diff"].splitlines() if ln[:1] in "+-" and ln[:3] not in ("+++", "---")]
                print("  %-60s %s" % (m["id"], " => ".join(x[1:].strip() for x in chg)[:150]))
    elif args.cmd == "run":
        run(args)
    elif args.cmd == "list2":
        for n in (args.modules.split(",") if args.modules else [m["name"] for m in MODULES]):
            allm = enumerate_module_mutants(MOD_BY_NAME[n])
            sel = allm if args.all else select(allm, args.cap)
            byf = {}
            for m in allm:
                byf[m["function"]] = byf.get(m["function"], 0) + 1
            print("== %s: %d enumerated (%s), %d listed" % (n, len(allm), ", ".join("%s %d" % kv for kv in byf.items()), len(sel)))
            for m in sel:
                chg = [ln for ln in m["diff"].splitlines() if ln[:1] in "+-" and ln[:3] not in ("+++", "---")]
                print("  %-66s %-18s %s" % (m["id"], ",".join(m["checks"]), " => ".join(x[1:].strip() for x in chg)[:120]))
    elif args.cmd == "run2":
        run2(args)
    elif args.cmd == "report2":
        STATE = json.loads(JSON_OUT.read_text())
        write_report2()
        print(MD_OUT2)
    elif args.cmd == "followup":
        followup(args)
    elif args.cmd == "report":
        STATE = json.loads(JSON_OUT.read_text())
        write_report()
        print(MD_OUT)
    elif args.cmd in ("show", "apply"):
        pre = args.id.split(":")[0]
        if pre in MOD_BY_NAME:
            ms = [m for m in enumerate_module_mutants(MOD_BY_NAME[pre]) if m["id"] == args.id]
        else:
            ms = [m for m in enumerate_mutants(ENV_BY_NAME[pre]) if m["id"] == args.id]
        if not ms:
            sys.exit("no such mutant: " + args.id)
        m = ms[0]
        if args.cmd == "show":
            print(m["diff"])
        else:
            tree = Path(args.tree).resolve()
            if str(tree).startswith("/repo"):
                sys.exit("refusing to touch /repo")
            p = tree / m["file"]
            orig = p.read_bytes()
            if orig != (REPO / m["file"]).read_bytes():
                sys.exit("file in the tree is not pristine: " + str(p))
            p.write_bytes(orig[:m["start"]] + m["rep"].encode() + orig[m["end"]:])
            print("applied %s to %s" % (m["id"], p))


if __name__ == "__main__":
    main()
