#!/usr/bin/env python3
"""Writes /verif/MANIFEST.json from the table below and validates it against the schema (run with python3-vt)."""
import json, sys
from pathlib import Path
V = Path(__file__).resolve().parent.parent
COMMON_NOTE = ("Trusted base: Coq 8.16.1 kernel + vm_compute (no native_compute, no extraction); the hand-written per-row "
               "Gallina models (tied to /repo's working tree by the correspondence check run on every invocation: the real "
               "code and the model are run on the same inputs and compared inside Coq -- differential, bounded by its "
               "generators); torch per-row semantics of gather/scatter/where/sort; theorems are in exact arithmetic, "
               "float32 rounding is outside them (exact-grid inputs and margins keep it out of the comparison). ")
TECH = "Coq proof (induction/invariants over a Gallina model) + correspondence check against the running code"
CHECKS = {
 "C01": ("proof", "Mask soundness proved in Coq for every instance and every mask-admitted action sequence of the modelled envs (currently %(envs01)s): a finished admitted episode is feasible w.r.t. an independent route-based specification. The env model is tied to the code by comparing masks/done step by step on boundary-tight exact-grid instances, generator instances, solo and batched, and the specification is evaluated in Coq on every completed implementation episode.",
         "Envs without a model yet are not covered by this check (listed in DESIGN.md section 12). Print Assumptions: closed under the global context."),
 "C02": ("proof", "No dead end, done-stability, step totality (no crash on admitted actions) and the step bound proved in Coq by induction over admitted sequences for the routing envs (%(envs01)s) and, as units `sched` and `graph`, for FJSP/JSSP/FFSP/SMTWTP (incl. termination of the time-transit loops, the inert no-op/wait of finished rows, instance-level FFSP bound) and FLP/MCP/DPP/MDPP (no inert action exists: equal-quota rows finish together); correspondence compares mask emptiness, done and step counts, solo and in mixed batches with padding steps.",
         "solvableb hypotheses are the minimal ones the proofs force and are evaluated on every generated instance. Closed under the global context."),
 "C03": ("proof", "Reward = objective proved in Coq (gather/roll formulation vs route-wise definition) for the routing envs (%(envs01)s), and reward = -makespan / -weighted tardiness / -sum of nearest-facility distances / covered weight for FJSP, JSSP, FFSP, SMTWTP, FLP, MCP (units `sched`, `graph`); correspondence compares the real reward with the model's exactly on the exact stream and within float32 tolerance otherwise.",
         "get_distance = Euclidean norm is outside the model (distances are instance data). Closed under the global context."),
 "C04": ("proof", "Padding inertness (a finished row keeps mask/done/reward under any admitted padding) proved in Coq for the routing envs (%(envs01)s) and the scheduling envs; every batch-global construct of the code (`td[i].all()`, `batch_to_scalar`, `no_op.any()`, `while step_complete.any()`, `done.all()` guards, FLP `nonzero().view`, `[B] >= [B,1]` done) is written literally in a batched Gallina wrapper and proved equal to the row-wise reading under the invariant that really holds; batch independence of the running code is decided by the row model + correspondence: the same episode is replayed solo and at random positions of random batches next to copies and strangers with 0..k padding steps and must give identical masks, finishing step and reward.",
         "torch row-wise semantics trusted. Known finding: FLP/MCP rows with different quotas in one batch. Closed under the global context."),
 "C05": ("proof", "Mask completeness proved in Coq for the modelled envs (%(envs01)s): every canonical feasible solution of the independent specification is mask-admitted and complete, with equal objective; correspondence checks model_mask <= impl_mask and, on tiny instances, set equality between mask-reachable complete sequences (exhaustive expansion of the real env) and solutions enumerated from the problem definition.",
         "Closed under the global context."),
 "C06": ("proof", "Checker completeness and soundness (up to its own tolerance) and one rejection lemma per fault kind proved in Coq for the modelled checkers (%(envs06)s); correspondence compares verdicts on mask-made solutions and exhaustive single-fault corruptions.",
         "Tolerance constants as coded. Closed under the global context."),
 "C07": ("proof", "Validity of every mask-admitted complete schedule proved in Coq for FJSP/JSSP (event-driven automaton, mask_no_ops on/off, padded ops), FFSP (discrete-time automaton) and SMTWTP (permutation), with makespan/reward identity, termination of the time-transit loops, no dead end; correspondence compares masks, schedules (start/finish/assignment) and reward along real episodes incl. padded batches and waits; an executable validity decider proved sound is run on every implementation schedule.",
         "Closed under the global context."),
 "C08": ("proof", "Quota/distinctness/allowed-cells, done-exactly-at-quota and bookkeeping (nearest-facility distances, uncovered weights) proved in Coq for FLP, MCP, DPP, MDPP for every instance and admitted order; a store-level model with aliasing proves that repeated and interleaved episodes on the same instance tensors are fresh runs under the code's clone discipline (and refutes the alias-reset / in-place-step variants); correspondence compares mask, done, chosen and bookkeeping tensors after every step, on instances in the generators' exact key format, incl. repeated/interleaved episodes on the same tensors; known finding: per-row quotas in one batch (no inert action for finished rows).",
         "EDA envs are constructed on synthetic .npy data written by the harness (the real data cannot be downloaded); the decap simulator reward is outside the property. Closed under the global context."),
 "C09": ("proof", "Best-so-far bookkeeping proved exact for any operator and any history (cost_bsf = min of costs seen = cost of rec_best, never increases, reward = decrease, telescoping); 2-opt and PDP ruin-repair proved to preserve tour validity (single cycle; pickup before delivery) for every mask-admitted move and for whole runs of any length incl. step_to_solution; reported costs are tour lengths. k-opt (k = 3, 4) is proved exhaustively for n <= 8 / 7 (bound stated in the theorem: partial), larger k and n are covered by the correspondence only. Correspondence compares rec_current, rec_best, visited_time, costs and reward after every step of long random / mask-drawn / improve-then-worsen / policy-produced move sequences (N2S, DACT, NeuOpt as move sources), full mask matrices, and the k-opt builder's support.",
         "k_opt_valid for k >= 3 beyond the bound is not proved; policies enter only as move sources; float32 outside the theorems. Closed under the global context."),
 "C10": ("proof", "process_logits / greedy / sampling modelled over an abstract ordered field with an abstract monotone exponential; normalisation, support, argmax preservation, top-k cardinality, top-p mass, shift invariance (without clipping) and feasibility of greedy/sampled actions proved for all logits/masks/parameters; instantiated at (Z,Qc,2^z) (axiom-free, executable, used by the correspondence on ln2-multiples logits) and at (R,R,exp).",
         "tanh/log/float rounding not modelled (clip = arbitrary monotone map). R instances depend on the stdlib real axioms sig_forall_dec, sig_not_dec, classic, functional_extensionality_dep; the Qc instances are closed. torch.multinomial contract (returns an index of positive weight) trusted."),
 "C11": ("proof", "ConstructivePolicy.forward + DecodingStrategy (pre/step/post hooks, Greedy/Sampling/Evaluate, multistart forced step, select_best) + get_log_likelihood + calculate_entropy modelled per row for whole batches, parametric in ANY environment and ANY per-row decoder function; proved for all batches/modes/finishing times: every returned row is the spec's function of its own returned actions (LL = sum of masked-normalised step log-probs; forced, flagged and single-feasible padding steps contribute 0), evaluate round trip for passes without forced starts (actions, states, per-step LL, reward, entropy), PPO ratio one (closed at (Z,Qc,2^z) and (R,R,exp)); the multistart round trip is refuted for policy(actions=returned) (known finding) and proved for the tail. PARTIAL: the network is an uninterpreted per-row function assumed identical in both passes. Correspondence: a stub decoder with hash-derived logits in the real policy machinery on real envs compared with the model in Coq (actions exact, LL), and the real zoo policies checked on their own recorded per-step logits.",
         "Network determinism between the two passes is NOT modelled (MatNet counter-example is a known finding); start nodes, rewards and multinomial draws enter as inputs; policies with their own loop (MDAM, PointerNetwork, MultiStageFFSP, DeepACO val/test, improvement policies) are outside the model. C11_ppo_ratio_one_R depends on sig_forall_dec, sig_not_dec, classic, functional_extensionality_dep; the other theorems are closed."),
 "C12": ("proof", "batchify/unbatchify/unbatchify_and_gather/select_best/select_start_nodes/get_num_starts and the decoder, POMO, SymNCO, active-search regroupings modelled on lists; row r = instance r mod B, inverse round trips for any nesting, start layout/distinctness/feasibility per env rule and best-selection proved for all sizes; correspondence is exhaustive over small shapes on tagged tensors and TensorDicts and per-env start rules on real reset masks. Four start-node defects are recorded as known findings with _refuted theorems.",
         "Closed under the global context."),
 "C13": ("proof", "BeamSearch (pre_decoder_hook, _make_beam_step/_step, _backtrack, _select_best_beam, get_log_likelihood) modelled per row with a ghost history; proved for all widths, batch sizes, node counts, step counts, environments and score structures: backtracking = history of the state in the row; kept = w best expansions of the instance's own rows (injective parent/action, tie rule stated); distinct beams from distinct starts; admitted beams; under no-dead-end (C02) + C10 support the loop never raises; fewer than w finite expansions always selects -inf (never silently); score = sum of step scores; select_best = first maximum over the instance's own beams. Correspondence: stub decoder and the real AM policy with a ghost-history key in the TensorDict; the model is compared on (instance, history) of every row at every step, actions, scores, rewards; spec-on-impl replays every beam through the real env.",
         "Forced starts are an input (C12); tie / near-tie cases are excluded from the model comparison and covered by spec-on-impl only; torch.topk order among equal values unspecified. 18/19 theorems closed; C13_beam_search_R depends on the Coq.Reals axioms (sig_forall_dec, sig_not_dec, classic, functional_extensionality_dep)."),
 "C14": ("proof", "PARTIAL. Proved for every batch size, number of starts, instance size and width: a tensor-shape calculus model of every env-embedding class (context, dynamic, init) and of the AM decoder's glimpse query gives the documented output shape (so no squeeze can lose the batch axis at batch size 1); the batch-global first-step test equals its row-wise reading under the shared-counter invariant; and policy_rowwise: a row-wise encoder/decoder plus a padding-inert env gives actions, reward and log-likelihood independent of batch size, position and batch-mates. The shape model is tied to the code by running every real embedding module for B in {1,2,3} and comparing output shape / raises in Coq, fail-closed on classes the table does not cover. NOT proved: that the neural layers are row-wise; that hypothesis is only tested differentially (solo vs batches of 2/3/7 of the bundled constructive policies, random weights, greedy).",
         "models/nn/** is not modelled; torch rank rules trusted; a numeric cross-row leak inside a layer is detectable only by the differential test (testing, not proof). Closed under the global context."),
 "C15": ("proof", "Dihedral-8 and rotation/reflection maps proved isometries (squared distance) over every ordered field about definitions regenerated from transforms.py by the translator on every run; tour-cost invariance for any action list; evaluation regrouping (augment / multistart / both / sampling), best-of-k >= member, padding inertness proved on the list model of C12; correspondence runs the real StateAugmentation on dyadic coordinates and evaluate_policy with a stub decoder for all methods x loader batch sizes.",
         "cos/sin are variables constrained by c^2+s^2=1; float rounding outside. R instances depend on sig_forall_dec, sig_not_dec, functional_extensionality_dep. normalize=True (documented rescaling) and SymNCO's internal best_aug_actions are outside the property and only recorded."),
 "C16": ("proof", "REINFORCE (all baselines), POMO/SymNCO shared baselines, A2C and PPO losses modelled with forward-mode dual numbers over an ordered field (detach = zero tangent): value = stated surrogate, gradient w.r.t. log-likelihoods = reference gradient, rewards/baselines carry no gradient, shared advantages are zero-mean per instance, no BxB broadcast (shape calculus); arithmetic cores regenerated from the source by the translator; correspondence compares loss and autograd .grad of the real calculate_loss/shared_step on dyadic inputs with the model's value and tangents.",
         "autograd, optimiser and the networks are not modelled (the tangent = torch gradient claim is validated by the correspondence). R instances depend on sig_forall_dec, sig_not_dec, functional_extensionality_dep."),
 "C17": ("proof", "Dataset classes, collation, DataLoader chunking contract, ExtraKeyDataset and RolloutBaseline wrapping modelled on lists: loader round trip for any batch size incl. final partial batch, (instance, extra) pairs travel together under any permutation, rollout values aligned with items; correspondence is exhaustive over N<=7 tagged instances x batch sizes 1..N+1 x shuffle x extra key with the real classes.",
         "DataLoader sampler contract is a Section hypothesis (num_workers>0 not exercised). Closed under the global context."),
 "C18": ("proof", "PARTIAL (sampling assumed in range, float32 not modelled). The deterministic post-processing of the generators is modelled and proved for all sizes: ATSP tmat_class = one vectorised Floyd-Warshall pass gives the triangle inequality; CVRP demand/capacity table (incl. off-table sizes), CVRPTW window construction and repair, MTVRP time windows / demands / distance limit / preset subsampling, OP prizes, PDP pairing, SVRP sorted technicians, FJSP/JSSP op-index partition and eligibility, FFSP, SMTWTP, MCP, FLP formats -- each stated with the wfb/solvableb predicates of the environment theorems, so with C02 every generated instance completes. Tie: model-vs-code on chosen raw draws (fixed samplers / patched RNG calls, exact dyadic data) and wfb/solvableb evaluated in Coq on unmodified generator output over many parameterisations.",
         "mTSP, PCTSP, MDCPDP capacity, TSP, coordinate bounds and MCP distinctness are property-evaluated only; argsort returns a permutation is a hypothesis. Closed under the global context."),
 "C19": ("proof", "PARTIAL. Proved for all sizes: FJSP/JSSP text codec read(write(i)) = i up to padding (word level + character layer), rejected inputs covered explicitly; npz key/batch bookkeeping and CVRP/MTVRP loader normalisation over any ordered field, with the npz byte format as an explicit hypothesis. The codec and loader models are tied to the code by a Coq-evaluated correspondence on written/parsed files incl. 28 kinds of malformed files. NOT provable (no executable model): np.savez/np.load bytes, deepcopy/pickle of environments, Lightning checkpoints, file generators -- these are differentially TESTED (save/load/compare; same masks and rewards along random action sequences; restored policy gives the same greedy actions) and reported as testing in the evidence.",
         "Library I/O behaviour is tested, not proved. Closed under the global context."),
 "C20": ("proof", "Welford count/mean/M2 exactness, sample variance, scaler output, EMA recurrence and bounds, warm-up alpha and convex combination proved in Coq over every ordered field for every history of batches of ANY SHAPE (a batch is a tensor given as its rows: the code's own `reshape(-1)` is part of the translated definition), about definitions regenerated from /repo by a fail-closed ast translator on every run; the translated code is also executed at Qc against the real classes.",
         "sqrt abstract; float rounding and count=1 outside the theorems; R instance depends on sig_forall_dec, functional_extensionality_dep."),
}
SUBST = {"envs01": "CVRP", "envs06": "CVRP, TSPkopt, PDPRuinRepair"}
NOT_APPLICABLE = []

def load_extra():
    p = V / "tools" / "manifest_extra.json"
    if p.exists():
        d = json.loads(p.read_text())
        SUBST.update(d.get("subst", {}))
        for k, v in d.get("checks", {}).items():
            CHECKS[k] = tuple(v)
        NOT_APPLICABLE.extend(d.get("not_applicable", []))
        for k in d.get("pending", []):      # built but not yet verified green on the unchanged tree: not claimed
            CHECKS.pop(k, None)

def main():
    load_extra()
    checks = []
    for pid in sorted(CHECKS):
        cat, text, note = CHECKS[pid][:3]
        tech = CHECKS[pid][3] if len(CHECKS[pid]) > 3 else TECH
        checks.append({"property_id": pid, "quick_cmd": "./check %s --tier quick" % pid,
                       "thorough_cmd": "./check %s --tier thorough" % pid, "evidence_file": "evidence/%s.json" % pid,
                       "replay_cmd_template": "./check --replay {path}", "engine": "coq-proof+correspondence",
                       "level_claimed": {"category": cat, "text": text % SUBST, "design_ref": "DESIGN.md section 6 %s, section 12" % pid},
                       "level_note": COMMON_NOTE + note, "technique": tech})
    claimed = {c["property_id"] for c in checks}
    na = [e for e in NOT_APPLICABLE if e["property_id"] not in claimed]
    allp = [json.loads(l)["id"] for l in open(V / "properties.jsonl")]
    for pid in allp:
        if pid not in claimed and pid not in {e["property_id"] for e in na}:
            na.append({"property_id": pid, "reason": "not claimed yet: no model/theorems/correspondence registered for it at this commit (see DESIGN.md section 12)"})
    man = {"version": 1, "setup_cmd": "./check setup",
           "hooks": {"guard": "RL4CO_VERIF", "enable": "export RL4CO_VERIF=1 (set by ./check; no source hooks are needed: everything is observed through public API)",
                     "baseline_off_cmd": "cd /repo && /venv/bin/python -m pytest -ra -q -p no:cacheprovider --timeout=900 --continue-on-collection-errors",
                     "source_commits": [], "add_only": True},
           "engines": [{"name": "coq-proof+correspondence", "path": "check", "serves_properties": sorted(claimed),
                        "kind_free_text": "Coq 8.16.1 theorems over hand-written/translated Gallina models; a correspondence check evaluates the model inside Coq (vm_compute) on the inputs the real code was run on"}],
           "checks": checks, "not_applicable": sorted(na, key=lambda e: e["property_id"]),
           "notes": "Genuine defects of rl4co found by the checks are listed in known_findings.json (open = reported as KNOWN-FINDING, fixed = repaired by a 'fix:' commit in /repo)."}
    (V / "MANIFEST.json").write_text(json.dumps(man, indent=1) + "\n")
    try:
        import jsonschema
        jsonschema.validate(man, json.load(open("/root/.vp/MANIFEST.schema.json")))
        print("MANIFEST valid; claimed:", sorted(claimed))
    except ImportError:
        print("written (jsonschema not available to validate)")

if __name__ == "__main__":
    main()
