#!/bin/sh
# tools/import_seed.sh <name> ... : copies /tmp/seedout/<name>/{patch.diff,demo.py,meta.json} to seeded/<name>/ and checks that the patch applies to /repo's HEAD
cd "$(dirname "$0")/.." || exit 2
for s in "$@"; do
  mkdir -p seeded/$s
  cp /tmp/seedout/$s/patch.diff /tmp/seedout/$s/demo.py /tmp/seedout/$s/meta.json seeded/$s/ || { echo "$s: files missing"; continue; }
  git -C /repo apply --check "$PWD/seeded/$s/patch.diff" && echo "$s applies" || echo "$s DOES NOT APPLY"
done
