#!/bin/sh
# tools/run_seeded.sh <seeded-dir> [tier] [props]
#   default mode: applies <dir>/patch.diff to /repo, runs the check(s), and ALWAYS reverts /repo afterwards.
#   SEED_WT=1   : instead applies it to a throw-away git worktree of /repo under /tmp and runs the checks with
#                 RL4CO_REPO pointing there (for use while other people are running checks against /repo).
set -u
D="$(cd "$1" && pwd)"; TIER="${2:-quick}"
cd "$(dirname "$0")/.." || exit 2
PROP="${3:-$(python3 -c "import json,sys;print(json.load(open('$D/meta.json'))['property'])")}"
if [ "${SEED_WT:-0}" = "1" ]; then
  WT="/tmp/seedrun_$$"
  git -C /repo worktree add -q --detach "$WT" HEAD || exit 2
  trap 'git -C /repo worktree remove --force "$WT"' EXIT INT TERM
  git -C "$WT" apply "$D/patch.diff" || { echo "patch does not apply"; exit 2; }
  export RL4CO_REPO="$WT"
else
  if ! git -C /repo diff --quiet; then echo "/repo has uncommitted changes, refusing"; exit 2; fi
  git -C /repo apply "$D/patch.diff" || { echo "patch does not apply"; exit 2; }
  trap 'git -C /repo checkout -- . ' EXIT INT TERM
  export RL4CO_REPO=/repo
fi
echo "== demo on patched tree"; for f in "$D"/demo*.py; do PYTHONPATH="$RL4CO_REPO" /venv/bin/python "$f" 2>&1 | tail -2; echo "demo rc=$?"; done
export VERIF_EVIDENCE_DIR="$PWD/build/seeded_evidence"; mkdir -p "$VERIF_EVIDENCE_DIR"
for P in $PROP; do
  echo "== ./check $P --tier $TIER (patched)"
  ./check "$P" --tier "$TIER" > "build/seeded_$P.log" 2>&1; rc=$?
  grep -E "VIOLATION|KNOWN-FINDING|^\[C" "build/seeded_$P.log" | cut -c1-260
  echo "rc=$rc"
done
