"""Translation units for C16 (dual-number level: detach placement is part of what is translated)."""
from translator.ext_c16 import UnitC16

BL = "rl4co/models/rl/reinforce/baselines.py"
SYM = "rl4co/models/zoo/symnco/losses.py"

FILES = {
    "GenC16": [
        UnitC16(name="gen16_no_eval", file=BL, qualname="NoBaseline.eval", params={}, state={}, state_out=[],
                ret_types=["S", "S"], prologue=True),
        UnitC16(name="gen16_shared_eval", file=BL, qualname="SharedBaseline.eval", params={"reward": "M"}, state={},
                state_out=[], ret_types=["C", "S"], last_axis=("on_dim",)),
        UnitC16(name="gen16_ema_eval", file=BL, qualname="ExponentialBaseline.eval", params={"reward": "V"},
                state={"beta": "KS", "v": "O"}, state_out=["v"], ret_types=["S", "S"]),
        UnitC16(name="gen16_critic_eval", file=BL, qualname="CriticBaseline.eval", params={"c": "V"}, state={},
                state_out=[], ret_types=["V", "S"], inputs={"self.critic(x).squeeze(-1)": ("critic_out", "V")}),
        UnitC16(name="gen16_ps_loss", file=SYM, qualname="problem_symmetricity_loss",
                params={"reward": "M", "log_likelihood": "M"}, state={}, state_out=[], ret_types=["S"], last_axis=("dim",)),
        UnitC16(name="gen16_ss_loss", file=SYM, qualname="solution_symmetricity_loss",
                params={"reward": "M", "log_likelihood": "M"}, state={}, state_out=[], ret_types=["S"], last_axis=("dim",)),
        UnitC16(name="gen16_calculate_loss", file="rl4co/models/rl/reinforce/reinforce.py", qualname="REINFORCE.calculate_loss",
                params={"reward": "V", "log_likelihood": "V"}, state={"advantage_scaler": "SC"}, state_out=[],
                ret_types=["S", "S", "S", "BV"], defaulted=("reward", "log_likelihood"),
                inputs={"batch.get('extra', None)": ("p_extra", "OV")},
                opaque_calls={"self.baseline.eval": [("bl_val_in", "BV"), ("bl_loss_in", "S")]},
                fun_calls={"self.advantage_scaler": ("apply_scaler st_advantage_scaler", "V", "V")},
                consts={"__dict_keys__": ("loss", "reinforce_loss", "bl_loss", "bl_val")}),
    ],
}
