"""Translation units for C20 (RewardScaler, stateful baselines)."""
from translator.py2gallina import Unit

FILES = {
    "GenWelford": [
        Unit(name="gen_scaler_update", file="rl4co/models/rl/common/utils.py", qualname="RewardScaler.update",
             params={"batch": "T"},   # a tensor of any rank >= 1, as the list of its rows: the code must flatten it itself
             state={"count": "N", "mean": "S", "M2": "S"},
             state_out=["count", "mean", "M2"]),
    ],
    "GenBaselines": [
        Unit(name="gen_ema_eval", file="rl4co/models/rl/reinforce/baselines.py", qualname="ExponentialBaseline.eval",
             params={"reward": "V"}, state={"beta": "S", "v": "O"}, state_out=["v"], ret_types=["S", "S"]),
        Unit(name="gen_warmup_eval", file="rl4co/models/rl/reinforce/baselines.py", qualname="WarmupBaseline.eval",
             params={}, state={"alpha": "S"}, state_out=[], ret_types=["S", "S"],
             opaque_calls={"self.baseline.eval": [("v_b", "S"), ("l_b", "S")],
                           "self.warmup_baseline.eval": [("v_wb", "S"), ("l_wb", "S")]}),
        Unit(name="gen_warmup_epoch_callback", file="rl4co/models/rl/reinforce/baselines.py",
             qualname="WarmupBaseline.epoch_callback",
             params={}, state={"alpha": "S", "n_epochs": "N"}, state_out=["alpha"],
             opaque_calls={"self.baseline.epoch_callback": []},
             kw_subscripts={"kw['epoch']": ("kw_epoch", "N")}),
    ],
}


