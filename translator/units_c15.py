"""Translation units for C15 (dihedral_8_augmentation, symmetric_transform).

These two functions use per-point tensor constructs (split / cat / flip / where) that the stock translator
rejects, so they are translated by the subclass in translator/ext_c15.py into Gen/GenAugment.v.  regen.py
has no hook for a per-unit translator class; until it has one (see the C15 report: `translate_unit` could
honour a `translator_cls` attribute of the unit) the generation is triggered here: regen.load_units() asks
every units_* module for `FILES.items()` on every build, and ours regenerates its own file at that moment
and registers nothing with the stock translator."""
from translator import ext_c15

LAST_MSGS = []


class _SelfGenerated(dict):
    def items(self):
        try:
            LAST_MSGS[:] = ext_c15.regenerate()
        except Exception as e:  # never break other people's regeneration
            LAST_MSGS[:] = ["translator(ext_c15): regeneration failed: %r" % (e,)]
        return super().items()


FILES = _SelfGenerated()
