"""C16 extension of the fail-closed translator: the same whitelisted straight-line subset of Python, but translated
to DUAL-NUMBER Gallina (Train/Dual.v): every tensor expression becomes a dual-number expression, so that
`.detach()` is NOT a value-level identity here -- it becomes `detach`, and a removed or added detach changes the
generated definition and breaks the `*_gen_eq` lemma of Train/GenEqC16.v.

Types:  S dual scalar   V [n] tensor = list dual   M [B,S] tensor = list (list dual)   C [B,1] column = list dual
        KS python number / float attribute = field element   N nat   O optional stored detached value (option K)
        BV baseline value (Loss.blval: python number/0-dim or [n])   OV optional [n] tensor   SC RewardScaler
Additional whitelisted constructs (beyond py2gallina): unary minus / + - * / on the types above with torch
broadcasting of [B,S] against [B,1]; x.mean(dim=<last axis>, keepdim(s)=True) on M; x.shape[<last axis>] on M;
F.mse_loss(a, b); x.detach(); `a if a is not None else policy_out[..]` for a declared input; tuple assignment from
`<opaque call> if extra is None else (extra, 0)`; `policy_out.update({...}); return policy_out`.
Anything else raises Untranslatable (fail closed).

regen.py has no per-unit hook for a translator subclass, so importing this module installs a dispatcher around
regen.translate_unit that routes `UnitC16` units here and everything else to the original function."""
from __future__ import annotations

import ast
from dataclasses import dataclass, field

from translator.py2gallina import Translator, Unit, Untranslatable, find_function, _src

PROLOGUE = """End Gen.
From RL4CO Require Import Base.OFieldExtraC16 Train.Dual Train.Loss.
Section Gen.
Variable K : ofield.
Variable TM : tmod K.
Notation D := (dual K TM).
"""


@dataclass
class UnitC16(Unit):
    last_axis: tuple = ()            # names of parameters that denote the last axis of a 2-D tensor (dim=1 / dim=-1)
    inputs: dict = field(default_factory=dict)        # source text of an expression -> (gallina var, type): opaque inputs
    fun_calls: dict = field(default_factory=dict)     # "self.advantage_scaler" -> (gallina function text, arg type, result type)
    defaulted: tuple = ()            # params used as `x if x is not None else <dict lookup>`
    prologue: bool = False           # emit the section re-opening before this unit


TY = {"S": "D", "V": "list D", "M": "list (list D)", "C": "list D", "KS": "K", "N": "nat", "O": "option K",
      "BV": "blval K TM", "OV": "option (list D)", "SC": "scaler K", "B": "bool"}


class DualTranslator(Translator):
    # ----------------------------------------------------------------- helpers
    def to_dual(self, t, ty):
        if ty == "N":
            return ("(dconst (@of_nat K %s))" % t, "S")
        if ty == "KS":
            return ("(dconst %s)" % t, "S")
        return (t, ty)

    def to_k(self, t, ty):
        if ty == "N":
            return ("(@of_nat K %s)" % t, "KS")
        return (t, ty)

    to_field = staticmethod(lambda t, ty: (t, ty))

    def is_last_axis(self, node, env):
        s = _src(node)
        if s in ("1", "-1"):
            return True
        return isinstance(node, ast.Name) and node.id in self.u.last_axis

    # ----------------------------------------------------------------- expressions
    def expr(self, e, env):
        key = _src(e)
        if key in self.u.inputs:
            return self.u.inputs[key]
        if isinstance(e, ast.Constant):
            v = e.value
            if isinstance(v, bool) or v is None:
                raise Untranslatable("constant %r" % (v,))
            if isinstance(v, int) and 0 <= v <= 64:
                return ("%d%%nat" % v, "N")
            if isinstance(v, float) and v == int(v) and 0 <= v <= 64:
                return ("(@of_nat K %d%%nat)" % int(v), "KS")
            raise Untranslatable("constant %r" % (v,))
        if isinstance(e, ast.Name):
            if e.id in env:
                return env[e.id]
            raise Untranslatable("unknown name %s" % e.id)
        if isinstance(e, ast.Attribute):
            if key in env:
                return env[key]
            raise Untranslatable("unknown attribute %s" % key)
        if isinstance(e, ast.Subscript):
            # reward.shape[dim] on a [B,S] tensor, dim = last axis
            if (isinstance(e.value, ast.Attribute) and e.value.attr == "shape" and self.is_last_axis(e.slice, env)):
                t, ty = self.expr(e.value.value, env)
                if ty == "M":
                    return ("(length (hd [] %s))" % t, "N")
            raise Untranslatable("subscript %s" % key)
        if isinstance(e, ast.IfExp):
            # `x if x is not None else policy_out["x"]`: the declared input x either way
            t = e.test
            if (isinstance(t, ast.Compare) and len(t.ops) == 1 and isinstance(t.ops[0], ast.IsNot)
                    and isinstance(t.left, ast.Name) and t.left.id in self.u.defaulted
                    and _src(e.body) == t.left.id and isinstance(e.orelse, ast.Subscript)
                    and _src(e.orelse.value) == "policy_out" and isinstance(e.orelse.slice, ast.Constant)
                    and e.orelse.slice.value == t.left.id):
                return env[t.left.id]
            raise Untranslatable("conditional expression %s" % key)
        if isinstance(e, ast.UnaryOp) and isinstance(e.op, ast.USub):
            t, ty = self.expr(e.operand, env)
            tab = {"S": "(dopp %s)", "V": "(map dopp %s)", "C": "(map dopp %s)", "M": "(map (map dopp) %s)", "KS": "(fopp %s)"}
            if ty == "N":
                t, ty = self.to_k(t, ty)
            if ty in tab:
                return (tab[ty] % t, ty)
            raise Untranslatable("unary minus on %s" % ty)
        if isinstance(e, ast.BinOp):
            return self.binop(e, env)
        if isinstance(e, ast.Call):
            return self.call(e, env)
        raise Untranslatable("expression %s" % key)

    def binop(self, e, env):
        ops = {ast.Add: "add", ast.Sub: "sub", ast.Mult: "mul", ast.Div: "div"}
        if type(e.op) not in ops:
            raise Untranslatable("operator %s" % type(e.op).__name__)
        o = ops[type(e.op)]
        a, ta = self.expr(e.left, env)
        b, tb = self.expr(e.right, env)
        num = ("N", "KS")
        if ta in num and tb in num:
            if ta == "N" and tb == "N" and o == "add":
                return ("(%s + %s)%%nat" % (a, b), "N")
            a, _ = self.to_k(a, ta)
            b, _ = self.to_k(b, tb)
            return ("(f%s %s %s)" % (o, a, b), "KS")
        d = "d" + o
        # python number against a tensor
        if ta in num and tb in ("S", "V"):
            a, _ = self.to_k(a, ta)
            one = (lambda z: "(dscale %s %s)" % (a, z)) if o == "mul" else (lambda z: "(%s (dconst %s) %s)" % (d, a, z))
            return (one(b), "S") if tb == "S" else ("(map (fun x => %s) %s)" % (one("x"), b), "V")
        if tb in num and ta in ("S", "V"):
            b, _ = self.to_k(b, tb)
            one = {"mul": lambda z: "(dscale %s %s)" % (b, z), "div": lambda z: "(ddivc %s %s)" % (z, b)}.get(
                o, lambda z: "(%s %s (dconst %s))" % (d, z, b))
            return (one(a), "S") if ta == "S" else ("(map (fun x => %s) %s)" % (one("x"), a), "V")
        if ta == "S" and tb == "S":
            return ("(%s %s %s)" % (d, a, b), "S")
        if ta == "V" and tb == "S":
            return ("(map (fun x => %s x %s) %s)" % (d, b, a), "V")
        if ta == "S" and tb == "V":
            return ("(map (fun x => %s %s x) %s)" % (d, a, b), "V")
        if ta == "V" and tb == "V":
            return ("(map2 %s %s %s)" % (d, a, b), "V")
        if ta == "V" and tb == "BV" and o == "sub":
            return ("(sub_bl %s %s)" % (a, b), "V")
        if ta == "M" and tb == "C":       # [B,S] against [B,1]
            return ("(map2 (fun g m => map (fun r => %s r m) g) %s %s)" % (d, a, b), "M")
        if ta == "M" and tb == "M":
            return ("(map2 (map2 %s) %s %s)" % (d, a, b), "M")
        raise Untranslatable("binop on %s,%s in %s" % (ta, tb, _src(e)))

    def call(self, e, env):
        f = e.func
        fname = _src(f)
        if fname in self.u.fun_calls and len(e.args) == 1 and not e.keywords:
            g, tin, tout = self.u.fun_calls[fname]
            t, ty = self.expr(e.args[0], env)
            if ty != tin:
                raise Untranslatable("argument of %s has type %s" % (fname, ty))
            return ("(%s %s)" % (g, t), tout)
        if fname == "F.mse_loss" and len(e.args) == 2 and not e.keywords:
            a, ta = self.expr(e.args[0], env)
            b, tb = self.expr(e.args[1], env)
            if ta == "V" and tb == "V":
                return ("(dmse %s %s)" % (a, b), "S")
            raise Untranslatable("mse_loss on %s,%s" % (ta, tb))
        if isinstance(f, ast.Attribute):
            meth = f.attr
            t, ty = self.expr(f.value, env)
            if meth == "detach" and not e.args and not e.keywords:
                tab = {"S": "(detach %s)", "V": "(map detach %s)", "C": "(map detach %s)", "M": "(map (map detach) %s)"}
                if ty in tab:
                    return (tab[ty] % t, ty)
            if meth == "mean":
                if not e.args and not e.keywords:
                    if ty in ("V", "C"):
                        return ("(dmean %s)" % t, "S")
                    if ty == "M":
                        return ("(dmean (concat %s))" % t, "S")
                kws = {k.arg: k.value for k in e.keywords}
                if (not e.args and set(kws) <= {"dim", "keepdim", "keepdims"} and "dim" in kws and len(kws) == 2
                        and self.is_last_axis(kws["dim"], env) and ty == "M"
                        and all(_src(v) == "True" for k, v in kws.items() if k != "dim")):
                    return ("(map dmean %s)" % t, "C")
            if meth == "sum" and not e.args and not e.keywords and ty == "V":
                return ("(dsum %s)" % t, "S")
        raise Untranslatable("call %s" % _src(e))

    # ----------------------------------------------------------------- statements
    def block(self, stmts, env):
        if stmts:
            s, rest = stmts[0], stmts[1:]
            # bl_val, bl_loss = (<opaque call> if extra is None else (extra, 0))
            if (isinstance(s, ast.Assign) and len(s.targets) == 1 and isinstance(s.targets[0], ast.Tuple)
                    and isinstance(s.value, ast.IfExp)):
                v = s.value
                t = v.test
                if not (isinstance(t, ast.Compare) and len(t.ops) == 1 and isinstance(t.ops[0], ast.Is)
                        and isinstance(t.comparators[0], ast.Constant) and t.comparators[0].value is None):
                    raise Untranslatable("tuple assignment %s" % _src(s))
                c, tc = self.expr(t.left, env)
                if tc != "OV" or not isinstance(v.body, ast.Call) or _src(v.body.func) not in self.u.opaque_calls \
                        or not isinstance(v.orelse, ast.Tuple):
                    raise Untranslatable("tuple assignment %s" % _src(s))
                vals = self.u.opaque_calls[_src(v.body.func)]
                tg = s.targets[0].elts
                if len(vals) != len(tg) or len(v.orelse.elts) != len(tg):
                    raise Untranslatable("arity of %s" % _src(s))
                env_none = dict(env)
                for el, (var, ty) in zip(tg, vals):
                    env_none[self.target_key(el)] = (var, ty)
                x = self.fresh("some", env)
                env_some = dict(env)
                for k_, val in env.items():
                    if not k_.startswith("__") and val == (c, "OV"):
                        env_some[k_] = (x, "V")
                for el, src_el, (var, want) in zip(tg, v.orelse.elts, vals):
                    t2, ty2 = self.expr(src_el, env_some)
                    if want == "BV" and ty2 == "V":
                        t2, ty2 = "(BRows %s)" % t2, "BV"
                    if want == "S":
                        t2, ty2 = self.to_dual(t2, ty2)
                    if ty2 != want:
                        raise Untranslatable("branch types of %s" % _src(s))
                    env_some[self.target_key(el)] = (t2, ty2)
                return "(match %s with None => %s | Some %s => %s end)" % (
                    c, self.block(list(rest), env_none), x, self.block(list(rest), env_some))
            # policy_out.update({...}); return policy_out
            if (isinstance(s, ast.Expr) and isinstance(s.value, ast.Call) and _src(s.value.func) == "policy_out.update"
                    and len(s.value.args) == 1 and isinstance(s.value.args[0], ast.Dict)
                    and len(rest) == 1 and isinstance(rest[0], ast.Return) and _src(rest[0].value) == "policy_out"):
                d = s.value.args[0]
                keys = [k.value for k in d.keys]
                if keys != list(self.u.consts.get("__dict_keys__", keys)):
                    raise Untranslatable("dict keys %s" % keys)
                return self.result(ast.Tuple(elts=list(d.values)), env)
        return super().block(stmts, env)

    def bind(self, key, t, ty, rest, env):
        want = self.u.state.get(key.replace("self.", "")) if key.startswith("self.") else None
        if want == "O":
            if ty != "S":
                raise Untranslatable("state %s : optional stored value assigned a %s" % (key, ty))
            sv = self.fresh(key + "_val", env)
            v = self.fresh(key, env)
            env2 = dict(env)
            env2[key] = (v, "O")
            unwrap = dict(env.get("__unwrap__", {}))
            unwrap[v] = sv
            env2["__unwrap__"] = unwrap
            return "(let %s := %s in let %s := Some (dv %s) in %s)" % (sv, t, v, sv, self.block(rest, env2))
        if want is not None and want != ty:
            raise Untranslatable("state %s : %s assigned a %s" % (key, want, ty))
        v = self.fresh(key, env)
        env2 = dict(env)
        env2[key] = (v, ty)
        return "(let %s := %s in %s)" % (v, t, self.block(rest, env2))

    def test(self, t, env):
        if isinstance(t, ast.Compare) and len(t.ops) == 1:
            op, l, r = t.ops[0], t.left, t.comparators[0]
            if isinstance(op, (ast.Is, ast.IsNot)) and isinstance(r, ast.Constant) and r.value is None:
                a, ta = self.expr(l, env)
                if ta != "O":
                    raise Untranslatable("`is None` on non-optional %s" % _src(l))
                return ("is_none", a, isinstance(op, ast.IsNot))
            a, ta = self.expr(l, env)
            b, tb = self.expr(r, env)
            if ta == "N" and tb == "N" and isinstance(op, ast.Lt):
                return ("bool", "(Nat.ltb %s %s)" % (a, b), False)
        raise Untranslatable("test %s" % _src(t))

    def result(self, value, env):
        st = []
        for a in self.u.state_out:
            t, ty = env["self." + a]
            st.append(t)
        outs = []
        if value is not None:
            elts = value.elts if isinstance(value, ast.Tuple) else [value]
            if self.u.ret_types is None or len(elts) != len(self.u.ret_types):
                raise Untranslatable("return arity %s" % _src(value))
            for el, want in zip(elts, self.u.ret_types):
                t, ty = self.expr(el, env)
                if want == "S":
                    if ty == "O" and t in env.get("__unwrap__", {}):
                        t, ty = env["__unwrap__"][t], "S"
                    t, ty = self.to_dual(t, ty)
                if ty != want:
                    raise Untranslatable("return type %s, expected %s in %s" % (ty, want, _src(el)))
                outs.append(t)
        elif self.u.ret_types:
            raise Untranslatable("missing return value")
        parts = st + outs
        if not parts:
            raise Untranslatable("nothing returned")
        return "(" + ", ".join(parts) + ")" if len(parts) > 1 else parts[0]

    # the base class turns the Some-branch of `if self.v is None` into a scalar named some_k of type S (field
    # element); here the stored value is a detached tensor: a constant dual number
    def run(self):
        env = {"__ctr__": [0]}
        binders = []
        for a, ty in self.u.state.items():
            env["self." + a] = ("st_" + a, ty)
            binders.append("(st_%s : %s)" % (a, TY[ty]))
        for nm, vals in self.u.opaque_calls.items():
            for v, ty in vals:
                binders.append("(%s : %s)" % (v, TY[ty]))
        for key, (v, ty) in self.u.inputs.items():
            binders.append("(%s : %s)" % (v, TY[ty]))
        argnames = [a.arg for a in self.fn.args.args]
        for p, ty in self.u.params.items():
            if p not in argnames:
                raise Untranslatable("parameter %s not in signature %s" % (p, argnames))
            env[p] = ("p_" + p, ty)
            binders.append("(p_%s : %s)" % (p, TY[ty]))
        # defaults of the axis parameters must denote the last axis of a 2-D tensor
        defaults = dict(zip(argnames[len(argnames) - len(self.fn.args.defaults):], self.fn.args.defaults))
        for p in self.u.last_axis:
            if p not in defaults or _src(defaults[p]) not in ("1", "-1"):
                raise Untranslatable("axis parameter %s has no default 1/-1" % p)
        body = self.block(list(self.fn.body), env)
        body = body.replace("(dconst ", "(@dconst K TM ")      # a constant alone does not determine the tangent space
        text = "Definition %s %s :=\n  %s." % (self.u.name, " ".join(binders), body)
        return (PROLOGUE if self.u.prologue else "") + text


def _patch_is_none(cls):
    """In the base class the not-None branch rebinds the optional to (x, "S"); at dual level the stored value is a
    field element that re-enters the computation as a constant: (dconst x)."""
    base_block = Translator.block

    def block(self, stmts, env):
        if stmts and isinstance(stmts[0], ast.If):
            s, rest = stmts[0], stmts[1:]
            kind, c, neg = self.test(s.test, env)
            body, orelse = (s.orelse, s.body) if neg else (s.body, s.orelse)
            if kind == "is_none":
                some_env = dict(env)
                x = self.fresh("some", env)
                for k_, v in env.items():
                    if not k_.startswith("__") and v == (c, "O"):
                        some_env[k_] = ("(dconst %s)" % x, "S")
                tb = self.block(list(body) + list(rest), dict(env))
                eb = self.block(list(orelse) + list(rest), some_env)
                return "(match %s with None => %s | Some %s => %s end)" % (c, tb, x, eb)
            tb = self.block(list(body) + list(rest), dict(env))
            eb = self.block(list(orelse) + list(rest), dict(env))
            return "(if %s then %s else %s)" % (c, tb, eb)
        return cls._block_c16(self, stmts, env)

    cls._block_c16 = cls.block
    cls.block = block
    return cls


_patch_is_none(DualTranslator)


def translate_unit_c16(repo_root, unit: UnitC16) -> str:
    src = open("%s/%s" % (repo_root, unit.file)).read()
    fn = find_function(ast.parse(src), unit.qualname)
    return DualTranslator(unit, fn).run()


def install():
    from translator import regen
    if getattr(regen.translate_unit, "_c16_dispatch", False):
        return
    orig = regen.translate_unit

    def dispatch(repo_root, unit):
        if isinstance(unit, UnitC16):
            try:
                return translate_unit_c16(repo_root, unit)
            except (Untranslatable, OSError, SyntaxError):
                raise
            except Exception as e:      # a bug in this extension must never take other properties' builds down
                raise Untranslatable("ext_c16 internal error: %r" % (e,))
        return orig(repo_root, unit)

    dispatch._c16_dispatch = True
    regen.translate_unit = dispatch


install()
