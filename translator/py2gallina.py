"""Fail-closed translator from a whitelisted subset of Python (straight-line tensor arithmetic on
scalars and 1-D vectors, with `if` on simple tests) to Gallina over the abstract ordered field of
Base/OField.v.  See DESIGN.md section 1.2.

A unit is described by a `Unit`: the source file, the qualified function name, the types of its
parameters and of the `self.<attr>` state it reads/writes, the calls that are to be treated as
opaque inputs, and the order of the state tuple it returns.

Types:  S scalar (field element)   V vector (list of field elements)   N natural number
        O optional scalar (None | value)   B boolean   M matrix (list of rows)
Anything outside the whitelist raises Untranslatable (fail closed).
"""
from __future__ import annotations

import ast
from dataclasses import dataclass, field
from fractions import Fraction


class Untranslatable(Exception):
    pass


@dataclass
class Unit:
    name: str                 # Gallina name of the generated definition
    file: str                 # path relative to the repo root
    qualname: str             # "Class.method" or "function"
    params: dict              # python parameter name -> type (others are ignored)
    state: dict               # self attribute -> type
    state_out: list           # attributes returned as the new state, in order
    opaque_calls: dict = field(default_factory=dict)   # "self.baseline.eval" -> [(var, type), ...]
    ret_types: list | None = None      # expected types of the returned tuple (None = no return value)
    consts: dict = field(default_factory=dict)         # python names bound to Gallina parameters
    kw_subscripts: dict = field(default_factory=dict)  # kw["epoch"] -> (var, type)
    ignore_calls: tuple = ("log.info",)


def _src(node):
    try:
        return ast.unparse(node)
    except Exception:  # pragma: no cover
        return "<node>"


class Translator:
    def __init__(self, unit: Unit, fn: ast.FunctionDef):
        self.u = unit
        self.fn = fn

    # ----------------------------------------------------------------- expressions
    def expr(self, e, env):
        """returns (gallina_text, type)"""
        if isinstance(e, ast.Constant):
            v = e.value
            if isinstance(v, bool) or v is None:
                raise Untranslatable("constant %r" % (v,))
            if isinstance(v, int):
                if not (0 <= v <= 64):
                    raise Untranslatable("integer constant out of range: %r" % v)
                return ("%d%%nat" % v, "N")
            if isinstance(v, float):
                f = Fraction(v)
                if f.denominator == 1 and 0 <= f.numerator <= 64:
                    return ("(@of_nat K %d%%nat)" % f.numerator, "S")
                raise Untranslatable("float constant %r (must be a parameter)" % v)
            raise Untranslatable("constant %r" % (v,))
        if isinstance(e, ast.Name):
            if e.id in env:
                return env[e.id]
            if e.id in self.u.consts:
                return self.u.consts[e.id]
            raise Untranslatable("unknown name %s" % e.id)
        if isinstance(e, ast.Attribute):
            key = _src(e)
            if key in env:
                return env[key]
            raise Untranslatable("unknown attribute %s" % key)
        if isinstance(e, ast.Subscript):
            key = _src(e)
            if key in self.u.kw_subscripts:
                return self.u.kw_subscripts[key]
            raise Untranslatable("subscript %s" % key)
        if isinstance(e, ast.UnaryOp) and isinstance(e.op, ast.USub):
            t, ty = self.expr(e.operand, env)
            t, ty = self.to_field(t, ty)
            if ty == "S":
                return ("(fopp %s)" % t, "S")
            if ty == "V":
                return ("(map fopp %s)" % t, "V")
            raise Untranslatable("unary minus on %s" % ty)
        if isinstance(e, ast.BinOp):
            ops = {ast.Add: "fadd", ast.Sub: "fsub", ast.Mult: "fmul", ast.Div: "fdiv"}
            if type(e.op) not in ops:
                raise Untranslatable("operator %s" % type(e.op).__name__)
            op = ops[type(e.op)]
            a, ta = self.expr(e.left, env)
            b, tb = self.expr(e.right, env)
            if ta == "N" and tb == "N":
                if op == "fadd":
                    return ("(%s + %s)%%nat" % (a, b), "N")
                # any other integer arithmetic is lifted to the field (python `/` is true division)
            a, ta = self.to_field(a, ta)
            b, tb = self.to_field(b, tb)
            if ta == "S" and tb == "S":
                return ("(%s %s %s)" % (op, a, b), "S")
            if ta == "V" and tb == "S":
                return ("(vs_op %s %s %s)" % (op, a, b), "V")
            if ta == "S" and tb == "V":
                return ("(sv_op %s %s %s)" % (op, a, b), "V")
            if ta == "V" and tb == "V":
                return ("(map2 %s %s %s)" % (op, a, b), "V")
            if ta == "T" and tb == "S":
                return ("(map (fun r_ => vs_op %s r_ %s) %s)" % (op, b, a), "T")
            if ta == "S" and tb == "T":
                return ("(map (fun r_ => sv_op %s %s r_) %s)" % (op, a, b), "T")
            if ta == "T" and tb == "T":
                return ("(map2 (map2 %s) %s %s)" % (op, a, b), "T")
            raise Untranslatable("binop on %s,%s in %s" % (ta, tb, _src(e)))
        if isinstance(e, ast.Call):
            return self.call(e, env)
        raise Untranslatable("expression %s" % _src(e))

    @staticmethod
    def to_field(t, ty):
        if ty == "N":
            return ("(@of_nat K %s)" % t, "S")
        return (t, ty)

    def call(self, e, env):
        f = e.func
        fname = _src(f)
        if fname == "len" and len(e.args) == 1 and not e.keywords:
            t, ty = self.expr(e.args[0], env)
            if ty not in ("V", "T"):
                raise Untranslatable("len of %s" % ty)
            return ("(length %s)" % t, "N")     # len of a tensor = its leading dimension (T = list of rows)
        if fname == "float" and len(e.args) == 1 and not e.keywords:
            t, ty = self.expr(e.args[0], env)
            return self.to_field(t, ty)
        if isinstance(f, ast.Attribute):
            meth = f.attr
            if meth in ("sum", "mean", "detach", "reshape", "clone", "float") :
                t, ty = self.expr(f.value, env)
                if meth == "sum" and not e.args and not e.keywords and ty == "V":
                    return ("(fsum %s)" % t, "S")
                if meth == "mean" and not e.args and not e.keywords and ty == "V":
                    return ("(fmean %s)" % t, "S")
                # T = tensor of rank >= 1 given as the list of its rows along the leading dimension
                if meth == "sum" and not e.args and not e.keywords and ty == "T":
                    return ("(fsum (concat %s))" % t, "S")
                if meth == "mean" and not e.args and not e.keywords and ty == "T":
                    return ("(fmean (concat %s))" % t, "S")
                if meth == "reshape" and len(e.args) == 1 and _src(e.args[0]) == "-1" and ty == "T":
                    return ("(concat %s)" % t, "V")
                if meth in ("detach", "clone", "float") and not e.args and not e.keywords:
                    return (t, ty)     # value-level identity (gradient flow is outside this translation)
                if meth == "reshape" and len(e.args) == 1 and _src(e.args[0]) == "-1" and ty == "V":
                    return (t, ty)
                raise Untranslatable("method call %s" % _src(e))
        raise Untranslatable("call %s" % _src(e))

    # ----------------------------------------------------------------- tests
    def test(self, t, env):
        if isinstance(t, ast.Compare) and len(t.ops) == 1:
            op, l, r = t.ops[0], t.left, t.comparators[0]
            if isinstance(op, (ast.Is, ast.IsNot)) and isinstance(r, ast.Constant) and r.value is None:
                a, ta = self.expr(l, env)
                if ta != "O":
                    raise Untranslatable("`is None` on non-optional %s" % _src(l))
                return ("is_none", a, isinstance(op, ast.IsNot))
            a, ta = self.expr(l, env)
            b, tb = self.expr(r, env)
            if ta == "N" and tb == "N":
                tab = {ast.Lt: "Nat.ltb %s %s", ast.LtE: "Nat.leb %s %s", ast.Eq: "Nat.eqb %s %s",
                       ast.Gt: "Nat.ltb %s %s", ast.GtE: "Nat.leb %s %s"}
                if type(op) not in tab:
                    raise Untranslatable("comparison %s" % _src(t))
                if isinstance(op, (ast.Gt, ast.GtE)):
                    a, b = b, a
                return ("bool", "(" + tab[type(op)] % (a, b) + ")", False)
            a, ta = self.to_field(a, ta)
            b, tb = self.to_field(b, tb)
            if ta == "S" and tb == "S":
                if isinstance(op, ast.Eq):
                    return ("bool", "(feqb %s %s)" % (a, b), False)
                if isinstance(op, ast.LtE):
                    return ("bool", "(fleb %s %s)" % (a, b), False)
                if isinstance(op, ast.Lt):
                    return ("bool", "(fltb %s %s)" % (a, b), False)
                if isinstance(op, ast.GtE):
                    return ("bool", "(fleb %s %s)" % (b, a), False)
                if isinstance(op, ast.Gt):
                    return ("bool", "(fltb %s %s)" % (b, a), False)
            raise Untranslatable("comparison %s" % _src(t))
        raise Untranslatable("test %s" % _src(t))

    # ----------------------------------------------------------------- statements
    def target_key(self, tgt):
        if isinstance(tgt, ast.Name):
            return tgt.id
        if isinstance(tgt, ast.Attribute) and isinstance(tgt.value, ast.Name) and tgt.value.id == "self":
            return "self." + tgt.attr
        raise Untranslatable("assignment target %s" % _src(tgt))

    def fresh(self, key, env):
        base = key.replace("self.", "").replace(".", "_")
        n = env["__ctr__"][0]
        env["__ctr__"][0] += 1
        return "%s_%d" % (base, n)

    def block(self, stmts, env):
        """translate a statement list in continuation style; returns gallina text of the result"""
        if not stmts:
            return self.result(None, env)
        s, rest = stmts[0], stmts[1:]
        if isinstance(s, ast.Expr):
            if isinstance(s.value, ast.Constant) and isinstance(s.value.value, str):
                return self.block(rest, env)          # docstring
            if isinstance(s.value, ast.Call):
                nm = _src(s.value.func)
                if nm in self.u.ignore_calls:
                    return self.block(rest, env)
                if nm in self.u.opaque_calls and self.u.opaque_calls[nm] == []:
                    return self.block(rest, env)      # effect-only call on a sub-object, modelled elsewhere
            raise Untranslatable("expression statement %s" % _src(s))
        if isinstance(s, ast.Assign) and len(s.targets) == 1:
            tgt = s.targets[0]
            if isinstance(tgt, ast.Tuple):
                if isinstance(s.value, ast.Call) and _src(s.value.func) in self.u.opaque_calls:
                    vals = self.u.opaque_calls[_src(s.value.func)]
                    if len(vals) != len(tgt.elts):
                        raise Untranslatable("arity of %s" % _src(s))
                    env2 = dict(env)
                    for el, (v, ty) in zip(tgt.elts, vals):
                        env2[self.target_key(el)] = (v, ty)
                    return self.block(rest, env2)
                raise Untranslatable("tuple assignment %s" % _src(s))
            key = self.target_key(tgt)
            t, ty = self.expr(s.value, env)
            return self.bind(key, t, ty, rest, env)
        if isinstance(s, ast.AugAssign):
            key = self.target_key(s.target)
            fake = ast.BinOp(left=s.target, op=s.op, right=s.value)
            t, ty = self.expr(fake, env)
            return self.bind(key, t, ty, rest, env)
        if isinstance(s, ast.If):
            kind, c, neg = self.test(s.test, env)
            body, orelse = (s.orelse, s.body) if neg else (s.body, s.orelse)
            if kind == "is_none":
                # in the not-None branch the optional becomes a scalar
                some_env = dict(env)
                key = [k for k, v in env.items() if not k.startswith("__") and v[0] == c and v[1] == "O"]
                x = self.fresh("some", env)
                for k in key:
                    some_env[k] = (x, "S")
                tb = self.block(list(body) + list(rest), dict(env))
                eb = self.block(list(orelse) + list(rest), some_env)
                return "(match %s with None => %s | Some %s => %s end)" % (c, tb, x, eb)
            tb = self.block(list(body) + list(rest), dict(env))
            eb = self.block(list(orelse) + list(rest), dict(env))
            return "(if %s then %s else %s)" % (c, tb, eb)
        if isinstance(s, ast.Return):
            return self.result(s.value, env)
        raise Untranslatable("statement %s" % _src(s))

    def bind(self, key, t, ty, rest, env):
        want = self.u.state.get(key.replace("self.", "")) if key.startswith("self.") else None
        if want == "O" and ty == "S":
            sv = self.fresh(key + "_val", env)
            v = self.fresh(key, env)
            env2 = dict(env)
            env2[key] = (v, "O")
            unwrap = dict(env.get("__unwrap__", {}))
            unwrap[v] = sv
            env2["__unwrap__"] = unwrap
            return "(let %s := %s in let %s := Some %s in %s)" % (sv, t, v, sv, self.block(rest, env2))
        if want == "S" and ty == "N":
            t, ty = self.to_field(t, ty)
        if want is not None and want != ty:
            raise Untranslatable("state %s : %s assigned a %s" % (key, want, ty))
        v = self.fresh(key, env)
        env2 = dict(env)
        env2[key] = (v, ty)
        return "(let %s := %s in %s)" % (v, t, self.block(rest, env2))

    def result(self, value, env):
        st = []
        for a in self.u.state_out:
            t, ty = env["self." + a]
            st.append(t)
        outs = []
        if value is not None:
            if isinstance(value, ast.Call) and _src(value.func) in self.u.opaque_calls:
                elts = [ast.Name(id="__opaque__%s" % v) for v, _ in self.u.opaque_calls[_src(value.func)]]
                env = dict(env)
                for v, ty in self.u.opaque_calls[_src(value.func)]:
                    env["__opaque__%s" % v] = (v, ty)
            else:
                elts = value.elts if isinstance(value, ast.Tuple) else [value]
            if self.u.ret_types is None or len(elts) != len(self.u.ret_types):
                raise Untranslatable("return arity %s" % _src(value))
            for el, want in zip(elts, self.u.ret_types):
                t, ty = self.expr(el, env)
                if want == "S":
                    if ty == "O" and t in env.get("__unwrap__", {}):
                        t, ty = env["__unwrap__"][t], "S"
                    if ty == "O":
                        # returning an optional that is known to be Some: only via a Some binding
                        raise Untranslatable("optional returned where scalar expected: %s" % _src(el))
                    t, ty = self.to_field(t, ty)
                if ty != want:
                    raise Untranslatable("return type %s, expected %s in %s" % (ty, want, _src(el)))
                outs.append(t)
        elif self.u.ret_types:
            raise Untranslatable("missing return value")
        parts = st + outs
        if not parts:
            raise Untranslatable("nothing returned")
        return "(" + ", ".join(parts) + ")" if len(parts) > 1 else parts[0]

    # ----------------------------------------------------------------- driver
    def run(self):
        env = {"__ctr__": [0]}
        binders = []
        tymap = {"S": "K", "V": "list K", "T": "list (list K)", "N": "nat", "O": "option K", "B": "bool"}
        for c, (v, ty) in self.u.consts.items():
            binders.append("(%s : %s)" % (v, tymap[ty]))
        for a, ty in self.u.state.items():
            env["self." + a] = ("st_" + a, ty)
            binders.append("(st_%s : %s)" % (a, tymap[ty]))
        for nm, vals in self.u.opaque_calls.items():
            for v, ty in vals:
                binders.append("(%s : %s)" % (v, tymap[ty]))
        for key, (v, ty) in self.u.kw_subscripts.items():
            binders.append("(%s : %s)" % (v, tymap[ty]))
        argnames = [a.arg for a in self.fn.args.args]
        for p, ty in self.u.params.items():
            if p not in argnames:
                raise Untranslatable("parameter %s not in signature %s" % (p, argnames))
            env[p] = ("p_" + p, ty)
            binders.append("(p_%s : %s)" % (p, tymap[ty]))
        body = self.block(list(self.fn.body), env)
        return "Definition %s %s :=\n  %s." % (self.u.name, " ".join(binders), body)


def find_function(tree: ast.Module, qualname: str) -> ast.FunctionDef:
    parts = qualname.split(".")
    scope = tree.body
    node = None
    for p in parts:
        node = None
        for n in scope:
            if isinstance(n, (ast.FunctionDef, ast.ClassDef)) and n.name == p:
                node = n
                break
        if node is None:
            raise Untranslatable("cannot find %s" % qualname)
        scope = node.body
    if not isinstance(node, ast.FunctionDef):
        raise Untranslatable("%s is not a function" % qualname)
    return node


def translate_unit(repo_root, unit: Unit) -> str:
    src = open("%s/%s" % (repo_root, unit.file)).read()
    tree = ast.parse(src)
    fn = find_function(tree, unit.qualname)
    return Translator(unit, fn).run()
